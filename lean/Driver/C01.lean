import Std.Data.HashMap
import BsVerif.Core.Proto
import BsVerif.Model.Context
namespace Driver.C01
open BsVerif BsVerif.Proto BsVerif.Bp

/-- the debugger with its exploration context (`Bp.CSt`), kept as two fields so that other drivers can keep using `.s` -/
structure St where
  s : Bp.St := { τ := [], code := fun _ => 0 }
  ecx : Bp.Ecx := {}

def hex (n : Nat) : String := String.ofList (Nat.toDigits 16 n)

/-- stable insertion sort by address (the implementation's poke order across *different* addresses comes from
hash-map iteration and is not compared) -/
def sortPokes (l : List (Nat × Nat)) : List (Nat × Nat) :=
  l.foldl (fun acc x =>
    let (le, gt) := acc.span (fun y => y.1 ≤ x.1)
    le ++ [x] ++ gt) []

def showPokes (l : List (Nat × Nat)) : String :=
  encList (fun p => hex p.1 ++ ":" ++ hex p.2) (sortPokes l)

def showOut (o : Out) (s : Bp.St) : String :=
  let base := match o with
    | .ok => "ok" | .none => "none" | .err => "err"
    | .stop pc => "stop " ++ hex pc
    | .exit c => "exit " ++ toString c
    | .corrupt => "corrupt" | .outOfFuel => "out-of-fuel"
  base ++ " p=" ++ showPokes s.pokes

def decPair? (t : String) : Option (Nat × Nat) :=
  match t.splitOn ":" with
  | [a, b] => match hexNat? a, hexNat? b with
    | some a, some b => some (a, b)
    | _, _ => none
  | _ => none

def showCtx (e : Option Ecx) (s : Bp.St) : String :=
  (match e with
   | some e => "ctx " ++ toString e.frame ++ " " ++ hex e.pc
   | none => "err") ++ " p=" ++ showPokes s.pokes

def showCOut (o : COut) (s : Bp.St) : String :=
  match o with
  | .base o => showOut o s
  | .ctx e => showCtx e s

/-- `frame <k> <ip|->`, `bt <ok|->`, `locals <ok|->`: the context-only commands (`ip` = what the implementation's
unwinder reported for frame `k`, `-` = the implementation refused; the ip is checked against the reference call chain
by the harness) -/
def decCtx? : List String → Option CtxOp
  | ["frame", k, ip] =>
    match decNat? k with
    | some k => if ip == "-" then some (.frame k none) else (hexNat? ip).map fun a => .frame k (some a)
    | none => none
  | ["bt"] => some (.backtrace true)
  | ["bt", ok] => some (.backtrace (ok != "-"))
  | ["locals"] => some (.locals true)
  | ["locals", ok] => some (.locals (ok != "-"))
  | _ => none

def runC (st : St) (op : COp) : St × String :=
  let (c, o) := Bp.execC { m := st.s, ecx := st.ecx } op
  ({ s := c.m, ecx := c.ecx }, showCOut o c.m)

def step (st : St) : List String → St × String
  | ["new", _name, entry, exitc, trace, bytes] =>
    match hexNat? entry, decNat? exitc, decList? hexNat? trace, decList? decPair? bytes with
    | some e, some x, some τ, some bs =>
      let m : Std.HashMap Nat Nat := bs.foldl (fun m p => m.insert p.1 p.2) {}
      ({ s := Bp.init τ e (fun a => (m.get? a).getD 0) x }, "ok")
    | _, _, _, _ => (st, "bad-op")
  | ["break", a] => match hexNat? a with
    | some a => runC st (.base (.brk a))
    | none => (st, "bad-op")
  | ["remove", a] => match hexNat? a with
    | some a => runC st (.base (.remove a))
    | none => (st, "bad-op")
  | ["start"] => runC st (.base .start)
  | ["continue"] => runC st (.base .cont)
  | toks => match decCtx? toks with
    | some x => runC st (.ctx x)
    | none => (st, "bad-op")

end Driver.C01
