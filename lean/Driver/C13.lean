import BsVerif.Core.Proto
import BsVerif.Model.DapBp
/-! Line-protocol adapter of `Model/DapBp.lean` (see `harness/src/props/c13.rs` for the request grammar). -/
namespace Driver.C13
open BsVerif BsVerif.Proto BsVerif.DapBp

structure St where
  s : DapBp.St := {}
  live : Bool := false

def hex (n : Nat) : String := String.ofList (Nat.toDigits 16 n)

def sortNat (l : List Nat) : List Nat :=
  l.foldl (fun acc x => let (le, gt) := acc.span (fun y => y ≤ x); le ++ [x] ++ gt) []

def showI3 (s : DapBp.St) : String :=
  if s.phase == .running && !s.latched then
    (if s.reg.en.isEmpty then "none" else "+".intercalate ((sortNat s.reg.en).map hex))
  else "-"

def decAddrs? (t : String) : Option (List Nat) :=
  if t == "-" then some [] else (t.splitOn "+").mapM hexNat?

def decCond? : String → Option Cond
  | "n" => some .none | "lt" => some (.lit true) | "lf" => some (.lit false)
  | "l0" => some (.lit false) | "l1" => some (.lit true)
  | "vo" => some (.var 0 true) | "vb" => some (.var 1 true) | "vx" => some (.unknownVar true)
  | "po" => some (.var 0 false) | "pb" => some (.var 1 false) | "px" => some (.unknownVar false)
  | "pe" => some .parseErr
  | _ => none

def decOpts? (c h l : String) : Option Opts := do
  let c ← decCond? c
  let h ← if h == "n" then some none else (decStr? h).map (fun s => some (parseHit s.toList))
  let l ← if l == "n" then some none else (decNat? l).map some
  pure { cond := c, hit := h, log := l }

def decBp? (t : String) : Option BpReq :=
  match t.splitOn "/" with
  | [_what, a, c, h, l] => do
    let a ← decAddrs? a
    let o ← decOpts? c h l
    pure { locs := a, opts := o }
  | _ => none

def decLine? (t : String) : Option BpReq :=
  match t.splitOn "/" with
  | [ln, _, _, _, _] => match decNat? ln with
    | some n => if n = 0 ∨ n > 100000 then none else decBp? t
    | none => none
  | _ => none

def decFn? (t : String) : Option BpReq :=
  match t.splitOn "/" with
  | [nm, _, _, _, _] => match decStr? nm with
    | some _ => decBp? t
    | none => none
  | _ => none

def decInsn? (t : String) : Option InsnReq :=
  match t.splitOn "/" with
  | [a, v, c, h, l] => do
    if a.length > 12 then none
    let a ← hexNat? a
    let v ← (if v == "1" then some true else if v == "0" then some false else none)
    let o ← decOpts? c h l
    pure { addr := a, valid := v, opts := o }
  | _ => none

def decData? (t : String) : Option DataReq :=
  match t.splitOn "/" with
  | [a, sz, acc] => do
    let a ← decNat? a
    let sz ← decNat? sz
    if a > 64 ∨ ¬ (sz = 1 ∨ sz = 2 ∨ sz = 4 ∨ sz = 8) then none
    let ro ← (if acc == "w" || acc == "rw" then some false else if acc == "r" then some true else none)
    pure { addr := a, readOnly := ro }
  | _ => none

def decEv? (t : String) : Option Ev :=
  match t.splitOn "." with
  | [a, e] => match hexNat? a, decNat? e with
    | some a, some e => some (a, e)
    | _, _ => none
  | _ => none

def showFlags (f : List (Nat × Bool)) : String :=
  encList (fun p => toString p.1 ++ ":" ++ (if p.2 then "1" else "0")) f

def showOutp : Outp → String
  | .log k => "L" ++ toString k
  | .condErr id => "CE" ++ toString id
  | .hitInvalid id => "HI" ++ toString id

/-- position tag of the event the debuggee is stopped at (the last consumed one) -/
def tagOf (s : DapBp.St) : String :=
  match s.τ[s.pos - 1]? with
  | some e => toString (e.2 / 8)
  | none => "?"

def showOutcome (s : DapBp.St) : Outcome → String
  | .stop a => "stop " ++ hex a ++ "@" ++ tagOf s
  | .entry (some a) => "entry " ++ hex a ++ "@" ++ tagOf s
  | .entry none => "entry -"
  | .exit => "exit"
  | .err => "err"

def showHit : HitCond → String × Nat
  | .exact n => ("eq", n) | .ge n => ("ge", n) | .gt n => ("gt", n) | .lt n => ("lt", n) | .le n => ("le", n)
  | .invalid => ("invalid", 0)

def runCmd (st : St) (c : Cmd) : St × String :=
  if !st.live then (st, "bad-op") else
  let wasLatched := st.s.latched
  let (s', a) := DapBp.exec st.s c
  let txt := match a with
    | .flags f => showFlags f ++ " i=" ++ showI3 s'
    | .run o r =>
      if wasLatched then "o=- err i=-"
      else "o=" ++ encList showOutp o ++ " " ++ showOutcome s' r ++ " i=" ++ showI3 s'
  ({ st with s := s' }, txt)

def step (st : St) : List String → St × String
  | ["new", _sid, _prog, tau] =>
    match decList? decEv? tau with
    | some τ => ({ s := DapBp.init τ, live := true }, "ok")
    | none => (st, "bad-op")
  | ["setb", src, bps] =>
    match (if src == "p0" then some 0 else if src == "nx" then some 1 else none), decList? decLine? bps with
    | some k, some bs => runCmd st (.setB k bs)
    | _, _ => (st, "bad-op")
  | ["setf", bps] =>
    match decList? decFn? bps with
    | some bs => runCmd st (.setF bs)
    | none => (st, "bad-op")
  | ["seti", bps] =>
    match decList? decInsn? bps with
    | some bs => runCmd st (.setI bs)
    | none => (st, "bad-op")
  | ["setd", bps] =>
    match decList? decData? bps with
    | some bs => runCmd st (.setD bs)
    | none => (st, "bad-op")
  | ["confdone"] => runCmd st .confDone
  | ["cont"] => runCmd st .cont
  | ["restart"] => runCmd st .restart
  | ["hc", text, hits] =>
    match decStr? text, decNat? hits with
    | some t, some h =>
      let hc := parseHit t.toList
      let (k, n) := showHit hc
      (st, k ++ " " ++ toString n ++ " " ++ (if hc.matches h then "1" else "0"))
    | _, _ => (st, "bad-op")
  | _ => (st, "bad-op")

end Driver.C13
