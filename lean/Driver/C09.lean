import BsVerif.Core.Proto
import BsVerif.Model.Tracer
/-! Line-protocol adapter of the tracer acceptor (C09).
  C09 new …                      -> ok (fresh state)
  C09 init <bps a:byte,…> <focus> <pc> <table t:num:st,…> <nextnum>
  C09 cmd continue               -> ok
  C09 e <call…>                  -> ok | <why the stream is rejected / the code would panic>
  C09 ret                        -> <stop reason> <thread table>
-/
namespace Driver.C09
open BsVerif BsVerif.Proto BsVerif.Tracer

structure St where
  s : Tracer.St := { tbl := { rows := [], next := 0 } }

def hex (n : Nat) : String := String.ofList (Nat.toDigits 16 n)

def ans? : String → Option Ans
  | "ok" => some .ok | "esrch" => some .esrch | "err" => some .err | _ => none

def wst? : List String → Option WSt
  | ["exited", t, c] => do some (.exited (← decNat? t) (← decNat? c))
  | ["signaled", t, c] => do some (.signaled (← decNat? t) (← decNat? c))
  | ["sig", t, c] => do some (.sig (← decNat? t) (← decNat? c))
  | ["clone", t] => do some (.clone (← decNat? t))
  | ["exec", t] => do some (.exec (← decNat? t))
  | ["evexit", t] => do some (.evexit (← decNat? t))
  | ["evstop", t, c] => do some (.evstop (← decNat? t) (← decNat? c))
  | ["event", t, _] => do some (.other (← decNat? t))
  | ["unknown", t] => do some (.other (← decNat? t))
  | ["echild"] => some .echild
  | _ => none

def ev? : List String → Option Ev
  | ["p", a, b] => do some (.poke (← hexNat? a) (← hexNat? b))
  | ["s", t, sg, r] => do some (.sstep (← decNat? t) (← decNat? sg) (← ans? r))
  | ["c", t, sg, r] => do some (.cont (← decNat? t) (← decNat? sg) (← ans? r))
  | ["i", t, r] => do some (.intr (← decNat? t) (← ans? r))
  | "w" :: "any" :: rest => do some (.wait none (← wst? rest))
  | "w" :: t :: rest => do some (.wait (some (← decNat? t)) (← wst? rest))
  | ["si", t, c, pcn, r] => do some (.siginfo (← decNat? t) (← decNat? c) (← hexNat? pcn) (← ans? r))
  | ["sp", t, n, o, r] => do some (.setpc (← decNat? t) (← hexNat? n) (← hexNat? o) (← ans? r))
  | ["em", t, c, r] => do some (.evmsg (← decNat? t) (← decNat? c) (← ans? r))
  | _ => none

def row? (t : String) : Option Tracee :=
  match t.splitOn ":" with
  | [a, b, c] => do
    let st ← (match c with
      | "run" => some Status.running
      | "stop" => some Status.stop
      | _ => none)
    some ⟨← decNat? a, ← decNat? b, st⟩
  | _ => none

def bp? (t : String) : Option (Nat × Nat) :=
  match t.splitOn ":" with
  | [a, b] => do some (← hexNat? a, ← hexNat? b)
  | _ => none

def sortRows (l : List Tracee) : List Tracee :=
  l.foldl (fun acc x =>
    let (le, gt) := acc.span (fun y => y.tid ≤ x.tid)
    le ++ [x] ++ gt) []

def showSt : Status → String
  | .running => "run" | .stop => "stop" | .sigstop s => "sigstop:" ++ toString s

def showTbl (T : Table) : String :=
  encList (fun r => toString r.tid ++ ":" ++ toString r.num ++ ":" ++ showSt r.st) (sortRows T.rows)

def showReason : Reason → String
  | .bp t pc => "bp " ++ toString t ++ " " ++ hex pc
  | .exit c => "exit " ++ toString c
  | .sig t s => "sig " ++ toString t ++ " " ++ toString s
  | .nosuch _ => "nosuchprocess"
  | .start => "start"

def step (st : St) : List String → St × String
  | "new" :: _ => ({}, "ok")
  | ["init", bps, focus, pc, tbl, next] =>
    match decList? bp? bps, decNat? focus, hexNat? pc, decList? row? tbl, decNat? next with
    | some b, some f, some pc, some rows, some n =>
      ({ s := { tbl := { rows := rows, next := n }, bps := b, focus := f, proc := f, fpc := some pc,
                last := some (.bp f pc) } }, "ok")
    | _, _, _, _, _ => (st, "bad-op")
  | ["cmd", "continue"] =>
    let s := cmdContinue st.s
    ({ s := s }, match s.aw with | .dead w => w | _ => "ok")
  | "e" :: rest =>
    match ev? rest with
    | some e =>
      let s := Tracer.step st.s e
      ({ s := s }, match s.aw with | .dead w => w | _ => "ok")
    | none => (st, "bad-op")
  | ["ret"] =>
    match st.s.aw, st.s.last with
    | .idle, some (.exit c) => (st, showReason (.exit c) ++ " -")
    | .idle, some r => (st, showReason r ++ " " ++ showTbl st.s.tbl)
    | .dead w, _ => (st, "dead:" ++ w)
    | _, _ => (st, "not-at-the-prompt")
  | _ => (st, "bad-op")

end Driver.C09
