import BsVerif.Core.Proto
import BsVerif.Model.Dap
/-! Line-protocol adapter of the DAP models.
`C12 new <sid> <variant> <force>`            → `ok` (fresh session)
`C12 pipe`                                   → `ok` (the next request is sent while the previous one is still being
                                               executed: no effect on a sequential session)
`C12 req <seq> <command> <mutation> <param> h:<outcome> [tl:<ids>|tl:none] [h:ok|h:fail] [pg:<n>] [nrec:<n>] [dbg:<alive|gone|unload>]`
                                             → canonical list of the messages the session writes
`C12 sched <writer ids>`                     → the sequence numbers in wire order (writer model) -/
namespace Driver.C12
open BsVerif BsVerif.Proto BsVerif.Dap

structure St where
  s : Sess := {}

def decCmd? (t : String) : Option Cmd := allCmds.find? (fun c => cmdName c == t)

def decMut? : String → Option Mut
  | "valid" => some .valid | "missing" => some .missing | "illtyped" => some .illtyped
  | "noargs" => some .noargs | "nofile" => some .nofile | _ => none

def qevName : QEv → String
  | .capabilities => "capabilities" | .process => "process"
  | .moduleNew => "module.new" | .sourceNew => "loadedSource.new"
  | .threadStarted t => "thread.started." ++ toString t | .threadExited t => "thread.exited." ++ toString t
  | .stopped r => "stopped." ++ r | .continued => "continued"
  | .bpChanged => "breakpoint.changed" | .bpRemoved => "breakpoint.removed"
  | .progressStart n => "progressStart." ++ toString n | .progressUpdate n => "progressUpdate." ++ toString n
  | .progressEnd n => "progressEnd." ++ toString n | .invalidated => "invalidated"
  | .initialized => "initialized"

def evName : Ev → String
  | .q e => qevName e
  | .initialized => "initialized"
  | .moduleRemoved => "module.removed" | .sourceRemoved => "loadedSource.removed"
  | .threadExitedAtEnd t => "thread.exited." ++ toString t
  | .exited => "exited" | .terminated => "terminated"

def msgTok : Msg → String
  | .resp c ok q => "R." ++ cmdName c ++ (if ok then ".ok." else ".err.") ++ toString q
  | .event e => "E." ++ evName e
  | .sessionEnd => "end"

/-- sort key of a thread event: `started` before `exited`, then by thread id (the adapter iterates hash
sets / hash-map keys: the order inside one batch is not part of the protocol) -/
def threadKey : Msg → Option (Nat × Nat)
  | .event (.q (.threadStarted t)) => some (0, t)
  | .event (.q (.threadExited t)) => some (1, t)
  | .event (.threadExitedAtEnd t) => some (1, t)
  | _ => none

def insertByKey (k : Nat × Nat) (m : Msg) : List ((Nat × Nat) × Msg) → List ((Nat × Nat) × Msg)
  | [] => [(k, m)]
  | (k', m') :: r =>
    if k.1 < k'.1 || (k.1 == k'.1 && k.2 < k'.2) then (k, m) :: (k', m') :: r else (k', m') :: insertByKey k m r

/-- sort every maximal run of adjacent thread events (the harness does the same to the wire) -/
def normRuns (run : List ((Nat × Nat) × Msg)) : List Msg → List Msg
  | [] => run.map (·.2)
  | m :: r =>
    match threadKey m with
    | some k => normRuns (insertByKey k m run) r
    | none => run.map (·.2) ++ m :: normRuns [] r

structure PHint where
  h : Hint := {}
  hasTl : Bool := false

def decHints (ts : List String) : Option PHint :=
  ts.foldlM (init := ({} : PHint)) fun p t =>
    if t == "h:exit" then some { p with h := { p.h with outcome := .exit } }
    else if t == "h:none" then some { p with h := { p.h with outcome := .none } }
    else if t == "h:ok" then some { p with h := { p.h with callOk := true } }
    else if t == "h:fail" then some { p with h := { p.h with callOk := false } }
    else if t.startsWith "h:stop:" then some { p with h := { p.h with outcome := .stop (t.drop 7).toString } }
    else if t == "tl:none" then some { p with hasTl := false }
    else if t.startsWith "tl:" then (decList? decNat? (t.drop 3).toString).map fun l => { h := { p.h with tl := l }, hasTl := true }
    else if t == "dbg:alive" then some { p with h := { p.h with dbgAfter := .inProgress } }
    else if t == "dbg:gone" then some { p with h := { p.h with dbgAfter := .exited } }
    else if t == "dbg:unload" then some { p with h := { p.h with dbgAfter := .unload } }
    else if t.startsWith "pg:" then (decNat? (t.drop 3).toString).map fun n => { p with h := { p.h with pg := n } }
    else if t.startsWith "nrec:" then (decNat? (t.drop 5).toString).map fun n => { p with h := { p.h with nrec := n } }
    else none

def hasRefresh : List Act → Bool
  | [] => false
  | .refresh _ :: _ => true
  | _ :: r => hasRefresh r

def step (st : St) : List String → St × String
  | ["new", _, _, _] => ({ s := {} }, "ok")
  | ["pipe"] => (st, "ok")
  | "req" :: q :: c :: m :: p :: hs =>
    match decNat? q, decCmd? c, decMut? m, decNat? p, decHints hs with
    | some q, some c, some m, some p, some ph =>
      let r : Req := { seq := q, cmd := c, mutn := m, param := p }
      -- the harness has no live process to attach to: a well-formed `attach` to one is not part of the grammar
      if c == .attach && m == .valid then (st, "bad-op")
      else if !st.s.alive then (st, "closed")
      -- the thread list is an observation of the debugger at a refresh: it must be there exactly when the
      -- skeleton of this request refreshes the thread cache
      else if hasRefresh (fullPlan st.s r ph.h) != ph.hasTl then
        (st, if ph.hasTl then "refresh-not-expected" else "refresh-expected")
      else match runStep st.s r ph.h with
        | none => (st, "closed")
        | some (s', out) => ({ s := s' }, encList msgTok (normRuns [] out))
    | _, _, _, _, _ => (st, "bad-op")
  | ["sched", ws] =>
    match decList? decNat? ws with
    | some ws => if ws.all (· < 3) then (st, encList toString (Writer.wireSeqs ws)) else (st, "bad-op")
    | none => (st, "bad-op")
  | _ => (st, "bad-op")

end Driver.C12
