import BsVerif.Core.Proto
import BsVerif.Model.Dap
/-! Line-protocol adapter of the DAP models.
`C12 new <sid> <variant> <force>`            → `ok` (fresh session)
`C12 req <seq> <command> <mutation> <param> h:<outcome> ts:<n> te:<n> [h:evok|h:everr]`
                                             → canonical list of the messages the session writes
`C12 sched <writer ids>`                     → the sequence numbers in wire order (writer model) -/
namespace Driver.C12
open BsVerif BsVerif.Proto BsVerif.Dap

structure St where
  s : Sess := {}

def decCmd? (t : String) : Option Cmd := allCmds.find? (fun c => cmdName c == t)

def decMut? : String → Option Mut
  | "valid" => some .valid | "missing" => some .missing | "illtyped" => some .illtyped
  | "noargs" => some .noargs | "nofile" => some .nofile | _ => none

def qevName : QEv → String
  | .capabilities => "capabilities" | .process => "process"
  | .moduleNew => "module.new" | .sourceNew => "loadedSource.new"
  | .threadStarted => "thread.started" | .threadExited => "thread.exited"
  | .stopped r => "stopped." ++ r | .continued => "continued"
  | .bpChanged => "breakpoint.changed" | .bpRemoved => "breakpoint.removed"

def evName : Ev → String
  | .q e => qevName e
  | .initialized => "initialized"
  | .moduleRemoved => "module.removed" | .sourceRemoved => "loadedSource.removed"
  | .threadExitedAtEnd => "thread.exited"
  | .exited => "exited" | .terminated => "terminated"

def msgTok : Msg → String
  | .resp c ok q => "R." ++ cmdName c ++ (if ok then ".ok." else ".err.") ++ toString q
  | .event e => "E." ++ evName e
  | .sessionEnd => "end"

def decHints (ts : List String) : Option Hint :=
  ts.foldlM (init := ({} : Hint)) fun h t =>
    if t == "h:exit" then some { h with outcome := .exit }
    else if t == "h:none" then some { h with outcome := .none }
    else if t == "h:evok" then some { h with evalOk := true }
    else if t == "h:everr" then some { h with evalOk := false }
    else if t.startsWith "h:stop:" then some { h with outcome := .stop (t.drop 7).toString }
    else if t.startsWith "ts:" then (decNat? (t.drop 3).toString).map fun n => { h with threadsStarted := n }
    else if t.startsWith "te:" then (decNat? (t.drop 3).toString).map fun n => { h with threadsExited := n }
    else none

def step (st : St) : List String → St × String
  | ["new", _, _, _] => ({ s := {} }, "ok")
  | "req" :: q :: c :: m :: p :: hs =>
    match decNat? q, decCmd? c, decMut? m, decNat? p, decHints hs with
    | some q, some c, some m, some p, some h =>
      match runStep st.s { seq := q, cmd := c, mutn := m, param := p } h with
      | none => (st, "closed")
      | some (s', out) => ({ s := s' }, encList msgTok out)
    | _, _, _, _, _ => (st, "bad-op")
  | ["sched", ws] =>
    match decList? decNat? ws with
    | some ws => if ws.all (· < 3) then (st, encList toString (Writer.wireSeqs ws)) else (st, "bad-op")
    | none => (st, "bad-op")
  | _ => (st, "bad-op")

end Driver.C12
