import BsVerif.Core.Proto
import BsVerif.Model.Signals
/-! Line-protocol adapter of `BsVerif.Model.Signals` (C10).  See harness/src/props/c10.rs for the request grammar. -/
namespace Driver.C10
open BsVerif BsVerif.Proto BsVerif.Sig

structure St where
  d : Option D := none

/-- signals the debuggee `progs-src/c10_sig.rs` installs a counting handler for -/
def handled : List Nat := [1, 2, 3, 10, 12, 14, 15, 17, 23, 26, 27, 28, 29]

def hex (n : Nat) : String := String.ofList (Nat.toDigits 16 n)

def mask (l : List Nat) : Nat := l.foldl (fun m s => m ||| (1 <<< (s - 1))) 0

def parseEv (t : String) : Option PEv :=
  match t.toList with
  | ['p'] => some .point
  | 'r' :: ds => match (String.ofList ds).toNat? with
    | some n => if n ∈ handled then some (.raise n) else none
    | none => none
  | 'k' :: ds => match (String.ofList ds).toNat? with
    | some n => if n ∈ handled then some (.kill n) else none
    | none => none
  | _ => none

def showLog (l : List LogEv) : String :=
  encList (fun e => match e with
    | .arr s => "a" ++ toString s
    | .inj .cont s => "c" ++ toString s
    | .inj .step s => "s" ++ toString s
    | .inj .sysc s => "y" ++ toString s
    | .sup s => "x" ++ toString s) l

def showOut : Out → String
  | .ok => "ok" | .none => "none" | .err => "err" | .bad => "bad-op" | .dead => "dead"
  | .bp => "bp" | .exit => "exit 0" | .sig s => "sig " ++ toString s ++ " main" | .done => "done"
  | .unmodelled => "unmodelled" | .outOfFuel => "out-of-fuel"

def hookOf : Out → String
  | .bp => "b" | .exit => "e0" | .sig s => toString s | .done => "t" | _ => "-"

def runAns (d d' : D) (o : Out) (isStep : Bool) : String :=
  let l := showLog (d'.log.drop d.log.length)
  match o with
  | .dead => "dead"
  | _ =>
    let os := if isStep then (match o with | .sig _ => "done" | _ => showOut o) else showOut o
    os ++ " h=" ++ hookOf o ++ " l=" ++ l

def counts (d : D) : String :=
  if d.k.stop = .exited then encList (fun s => toString s ++ ":" ++ toString (d.k.delivered.count s)) handled else "-"

def step (st : St) : List String → St × String
  | ["new", script] =>
    match decList? parseEv script with
    | some evs => ({ d := some (D.init evs) }, "ok")
    | none => ({ d := none }, "bad-op")
  | [cmd] =>
    match st.d with
    | none => (st, "bad-op")
    | some d =>
      match cmd with
      | "break" => let r := d.exec .brk; ({ d := some r.1 }, showOut r.2)
      | "unbreak" => let r := d.exec .unbrk; ({ d := some r.1 }, showOut r.2)
      | "start" => let r := d.exec .start; ({ d := some r.1 }, runAns d r.1 r.2 false)
      | "continue" => let r := d.exec .cont; ({ d := some r.1 }, runAns d r.1 r.2 false)
      | "stepi" => let r := d.exec .stepi; ({ d := some r.1 }, runAns d r.1 r.2 true)
      | "drain" =>
        let r := d.exec .drain
        match r.2 with
        | .dead => ({ d := some r.1 }, "dead")
        | _ => ({ d := some r.1 }, "stops=" ++ encList (fun o => (showOut o).replace " " "_") r.1.stops
                  ++ " l=" ++ showLog (r.1.log.drop d.log.length) ++ " counts=" ++ counts r.1)
      | _ => (st, "bad-op")
  | [cmd, sig] =>
    match st.d, decNat? sig with
    | some d, some s =>
      if s ∈ handled ∧ (cmd = "send" ∨ cmd = "sendp") then
        let r := d.exec (.send (cmd = "send") s)
        match r.2 with
        | .ok => ({ d := some r.1 }, "ok pnd=" ++ hex (mask r.1.k.pp) ++ "," ++ hex (mask r.1.k.sp))
        | o => ({ d := some r.1 }, showOut o)
      else (st, "bad-op")
    | _, _ => (st, "bad-op")
  | _ => (st, "bad-op")

end Driver.C10
