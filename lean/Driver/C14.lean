import BsVerif.Core.Proto
import BsVerif.Model.Dr
/-!
Line protocol of property C14.

Register session (`C14 new`): the DR7 / DR6 images are driven operation by operation.
  raw7 N | raw6 N            load an image                       -> ok
  cfg SLOT w|rw 1|2|4|8      configure_bp                        -> new DR7
  setdr SLOT G E             set_dr(slot, global, enable)        -> new DR7
  en SLOT G                  dr_enabled                          -> 0|1
  detect                     detect_and_flush                    -> (slot|none) newDR6
  size N                     BreakSize::try_from(N as u8)        -> discriminant | err

History session (`C14 live ...`): the registry state machine; every answer carries the result, the register
file of every thread (main first, the others sorted), and the watchpoint list.
  clone                      a thread is created, notifications in the order the kernel happens to choose
  clone cf                   ... the parent's PTRACE_EVENT_CLONE is handled first (`spawn t; evClone t`: the child's
                             initial stop is consumed by `wait_one` inside that handler)
  clone sf                   ... the child's PTRACE_EVENT_STOP is handled first (`spawn t; evStop t; evClone t`)
  restart                    `restart_debugee` of the running debuggee
  exitrerun                  the debuggee exits (inside the scope of its locals) and is started again; the answer
                             also carries the watchpoint list between the two
-/
namespace Driver.C14
open BsVerif BsVerif.Proto BsVerif.Dr BsVerif.Gen.Dr

structure St where
  d7 : Nat := 0
  d6 : Nat := 0
  sys : Sys := {}
  tid : Nat := 1                     -- next abstract thread id

def decCond? : String → Option BreakCondition
  | "w" => some .DataWrites
  | "rw" => some .DataReadsWrites
  | _ => none

def decBool? : String → Option Bool
  | "0" => some false
  | "1" => some true
  | _ => none

def decSlot? (t : String) : Option Nat := match decNat? t with
  | some n => if n < 4 then some n else none
  | none => none

def decOptNat? (t : String) : Option (Option Nat) :=
  if t == "-" then some none else (decNat? t).map some

def encCond : BreakCondition → String
  | .DataWrites => "w"
  | .DataReadsWrites => "rw"

def encErr : Err → String
  | .alreadyObserved => "already-observed"
  | .limitReached => "limit-reached"
  | .wrongSize => "wrong-size"

def encOpt : Option Nat → String
  | some n => toString n
  | none => "none"

def encRes : Res → String
  | .added _ slot => s!"added {slot}"
  | .refused e => s!"refused {encErr e}"
  | .removed n => s!"removed {if n.isSome then "some" else "none"}"
  | .hitSlot r => s!"hit {encOpt r}"
  | .ended l => s!"ended {l.length}"
  | .done => "done"
  | .panic => "panic"

def encImg (m : Img) : String := s!"{m.a0},{m.a1},{m.a2},{m.a3},{m.dr7}"

/-- insertion sort on strings (thread order is not observable) -/
def insertStr (x : String) : List String → List String
  | [] => [x]
  | y :: ys => if x ≤ y then x :: y :: ys else y :: insertStr x ys
def sortStr (l : List String) : List String := l.foldr insertStr []

def encWp (w : Wp) : String :=
  s!"{w.hw.addr}:{w.hw.size.bytes}:{encCond w.hw.cond}:{encOpt w.hw.reg}:{if w.scoped then "s" else "g"}"

def encWpNoSlot (w : Wp) : String :=
  s!"{w.hw.addr}:{w.hw.size.bytes}:{encCond w.hw.cond}:{if w.scoped then "s" else "g"}"

def dump (r : Res) (s : Sys) : String :=
  -- every thread of the kernel: the registered ones and the newborn (cleared registers)
  let ths := encImg s.main :: sortStr ((s.others ++ s.newborn.map (fun _ => kernelNewThread s.main)).map encImg)
  let cs := sortStr (s.comps.map fun c => s!"{c.addr}:{c.wps.length}")
  s!"{encRes r} | {";".intercalate ths} | {encList encWp s.wps} | {encList id cs}"

def live (s : St) (op : Op) : St × String :=
  let (r, sys') := BsVerif.Dr.step s.sys op
  ({ s with sys := sys' }, dump r sys')

def step (s : St) : List String → St × String
  | ["new"] => ({}, "ok")
  | ["raw7", n] => match decNat? n with
    | some n => ({ s with d7 := n }, "ok")
    | none => (s, "bad-op")
  | ["raw6", n] => match decNat? n with
    | some n => ({ s with d6 := n }, "ok")
    | none => (s, "bad-op")
  | ["cfg", dr, c, sz] => match decSlot? dr, decCond? c, (decNat? sz).bind BreakSize.ofBytes? with
    | some dr, some c, some sz => let d := configureBp s.d7 dr c sz; ({ s with d7 := d }, toString d)
    | _, _, _ => (s, "bad-op")
  | ["setdr", dr, g, e] => match decSlot? dr, decBool? g, decBool? e with
    | some dr, some g, some e => let d := setDr s.d7 dr g e; ({ s with d7 := d }, toString d)
    | _, _, _ => (s, "bad-op")
  | ["en", dr, g] => match decSlot? dr, decBool? g with
    | some dr, some g => (s, if drEnabled s.d7 dr g then "1" else "0")
    | _, _ => (s, "bad-op")
  | ["detect"] => let (r, d) := detectAndFlush s.d6; ({ s with d6 := d }, s!"{encOpt r} {d}")
  | ["size", n] => match decNat? n with
    | some n => (s, if n > 255 then "err" else match BreakSize.ofBytes? n with
      | some b => toString b.code
      | none => "err")
    | none => (s, "bad-op")
  -- history session
  | "new" :: "live" :: _ => ({}, "ok")
  | ["wmem", a, sz, c] => match decNat? a, (decNat? sz).bind BreakSize.ofBytes?, decCond? c with
    | some a, some sz, some c => live s (.addMem a sz c)
    | _, _, _ => (s, "bad-op")
  | ["wexpr", e, a, b, c, se] => match decNat? e, decNat? a, decNat? b, decCond? c, decOptNat? se with
    | some e, some a, some b, some c, some se => live s (.addExpr e a b c se)
    | _, _, _, _, _ => (s, "bad-op")
  | ["rmnum", k] => match decNat? k with
    -- numbers are process-global: the request names the k-th watchpoint of the list (0-based)
    | some k => match s.sys.wps[k]? with
      | some w => live s (.rmNum w.num)
      | none => live s (.rmNum 0)
    | none => (s, "bad-op")
  | ["rmaddr", a] => match decNat? a with
    | some a => live s (.rmAddr a)
    | none => (s, "bad-op")
  | ["rmexpr", e] => match decNat? e with
    | some e => live s (.rmExpr e)
    | none => (s, "bad-op")
  | ["clone"] => live s .clone
  | ["clone", "cf"] =>
    let sys' := BsVerif.Dr.run s.sys [.spawn s.tid, .evClone s.tid]
    ({ s with sys := sys', tid := s.tid + 1 }, dump .done sys')
  | ["clone", "sf"] =>
    let sys' := BsVerif.Dr.run s.sys [.spawn s.tid, .evStop s.tid, .evClone s.tid]
    ({ s with sys := sys', tid := s.tid + 1 }, dump .done sys')
  | ["texit", i] => match decNat? i with
    | some i => live s (.threadExit i)
    | none => (s, "bad-op")
  | ["hit", t, b] => match decNat? t, decNat? b with
    | some t, some b => live s (.hit t b)
    | _, _ => (s, "bad-op")
  | ["scopeend", a] => match decNat? a with
    | some a => live s (.scopeEnd a)
    | none => (s, "bad-op")
  | ["restart"] => live s (.restart true)
  | ["exitrerun"] =>
    let mid := match clearLocalDisableGlobal false s.sys with
      | some s1 => encList encWpNoSlot s1.wps
      | none => "panic"
    let (r, sys') := BsVerif.Dr.step s.sys (.restart false)
    ({ s with sys := sys' }, s!"exited {mid} # {dump r sys'}")
  -- the debuggee runs to its next sync point without creating a thread or touching a watched location
  | ["go"] => (s, dump .done s.sys)
  -- the main thread writes the listed addresses once each, in order: every write to the base address of an
  -- active watchpoint raises B_slot in DR6 of the main thread, which the tracer turns into a slot number
  | ["wphase", l] => match decList? decNat? l with
    | some addrs =>
      let (sys', hits) := addrs.foldl (fun (acc : Sys × List String) a =>
        match acc.1.wps.find? (fun w => w.hw.addr == a) with
        | some w => match w.hw.reg with
          | some r =>
            let (res, s') := BsVerif.Dr.step acc.1 (.hit 0 (2 ^ r))
            (s', acc.2 ++ [match res with | .hitSlot (some k) => toString k | _ => "none"])
          | none => acc
        | none => acc) (s.sys, [])
      ({ s with sys := sys' }, s!"hits {encList id hits} # {dump .done sys'}")
    | none => (s, "bad-op")
  | _ => (s, "bad-op")

end Driver.C14
