import BsVerif.Core.Proto
import BsVerif.Model.Value
/-!
Line-protocol adapter of the C06 model (`BsVerif/Model/Value.lean`).

  C06 new <toolchain> <profile> <seed> <rustc-minor>      start of a session: empty type graph, empty memory
  C06 ty <id> <kind> ...                                  one type declaration of the graph the debugger parsed
  C06 mem <addr> <hex>                                    a block of the debuggee's memory (from /proc/<pid>/mem)
  C06 memreset                                            forget the memory image (the debuggee ran)
  C06 discrkey <w> <raw>                                  key of a variant of an enum with an unsigned w-byte tag whose DW_AT_discr_value is the w-byte constant raw
  C06 constkey <raw>                                      key of an enumerator (DW_FORM_udata raw) of a C-like enum with an unsigned underlying type
  C06 val <v|d> <xname> <type id> <addr>                  decode `size(type)` bytes at addr → canonical rendering
  C06 val s <xname> <type id> <addr> <from> <to>          pointer slice
-/
namespace Driver.C06
open BsVerif BsVerif.Proto BsVerif.Value

structure St where
  graph : Array (Option Decl) := #[]
  blocks : Array (Nat × ByteArray) := #[]
  ver : Nat := 0

def unhexAux : List Char → ByteArray → Option ByteArray
  | [], acc => some acc
  | [_], _ => none
  | a :: b :: rest, acc =>
    match hexDigit? a, hexDigit? b with
    | some x, some y => unhexAux rest (acc.push (UInt8.ofNat (x * 16 + y)))
    | _, _ => none

def findBlock (blocks : Array (Nat × ByteArray)) (addr : Nat) : Option (Nat × ByteArray) :=
  blocks.find? fun (base, ba) => base ≤ addr && addr < base + ba.size

/-- bytes `[addr, addr+len)` if all of them are in the image -/
def readMem (blocks : Array (Nat × ByteArray)) : Nat → Nat → Nat → Array Nat → Option (Array Nat)
  | 0, _, len, acc => if len = 0 then some acc else none
  | fuel + 1, addr, len, acc =>
    if len = 0 then some acc else
    match findBlock blocks addr with
    | none => none
    | some (base, ba) =>
      let off := addr - base
      let n := min len (ba.size - off)
      let acc := (ba.extract off (off + n)).foldl (fun a b => a.push b.toNat) acc
      readMem blocks fuel (addr + n) (len - n) acc

def rdOf (blocks : Array (Nat × ByteArray)) (addr len : Nat) : Option Bytes :=
  (readMem blocks (blocks.size + 2) addr len #[]).map Array.toList

def optStr? (tok : String) : Option (Option String) :=
  if tok == "-" then some none else (decStr? tok).map some
def optNat? (tok : String) : Option (Option Nat) :=
  if tok == "-" then some none else (decNat? tok).map some
/-- integers: decimal, negative ones as `m<abs>` -/
def int? (tok : String) : Option Int :=
  match tok.toList with
  | 'm' :: rest => (String.ofList rest).toNat?.map fun n => -(n : Int)
  | _ => tok.toNat?.map fun n => (n : Int)
def optInt? (tok : String) : Option (Option Int) :=
  if tok == "-" then some none else (int? tok).map some
def nsList? (tok : String) : Option (List String) := decList? decStr? tok

def memberOf (loc name ty : String) : Option Member := do
  let l : Option (Option Int) ← if loc == "-" then some none else if loc == "e" then some (some none) else (int? loc).map fun i => some (some i)
  let n ← optStr? name
  let t ← optNat? ty
  some ⟨l, n, t⟩

def member? (tok : String) : Option Member :=
  match tok.splitOn ":" with
  | [loc, name, ty] => memberOf loc name ty
  | _ => none

def optMember? (tok : String) : Option (Option Member) :=
  if tok == "-" then some none else (member? tok).map some

def tparam? (tok : String) : Option (String × Option Nat) :=
  match tok.splitOn ":" with
  | [n, t] => do some (← decStr? n, ← optNat? t)
  | _ => none

def cenumerator? (tok : String) : Option (Int × String) :=
  match tok.splitOn ":" with
  | [v, n] => do some (← int? v, ← decStr? n)
  | _ => none

def renumerator? (tok : String) : Option (Option Int × Member) :=
  match tok.splitOn ":" with
  | [k, loc, name, ty] => do
    let key ← if k == "d" then some none else (int? k).map some
    some (key, ← memberOf loc name ty)
  | _ => none

def decl? : List String → Option Decl
  | ["scalar", name, ns, size, enc] => do
    some (.scalar (← optStr? name) (← nsList? ns) (← optNat? size) (← optNat? enc))
  | ["struct", name, ns, size, members, tps] => do
    some (.struct (← optStr? name) (← nsList? ns) (← optNat? size) (← decList? member? members) (← decList? tparam? tps))
  | ["union", name, ns, size, members] => do
    some (.union (← optStr? name) (← nsList? ns) (← optNat? size) (← decList? member? members))
  | ["array", ns, elem, lb, len, bytes] => do
    some (.array (← nsList? ns) (← optNat? elem) (← optInt? lb) (← optInt? len) (← optNat? bytes))
  | ["cenum", name, ns, size, discr, enums] => do
    some (.cenum (← optStr? name) (← nsList? ns) (← optNat? size) (← optNat? discr) (← decList? cenumerator? enums))
  | ["renum", name, ns, size, discr, enums] => do
    some (.renum (← optStr? name) (← nsList? ns) (← optNat? size) (← optMember? discr) (← decList? renumerator? enums))
  | ["ptr", name, ns, target] => do
    some (.ptr (← optStr? name) (← nsList? ns) (← optNat? target))
  | ["sub", name, ns, ret] => do
    some (.sub (← optStr? name) (← nsList? ns) (← optNat? ret))
  | ["mod", modifier, name, ns, inner] => do
    some (.modified (← decStr? modifier) (← optStr? name) (← nsList? ns) (← optNat? inner))
  | _ => none

def ctxOf (s : St) : Ctx :=
  { g := fun i => (s.graph[i]?).join, rd := rdOf s.blocks, ver := s.ver }

def setAt (a : Array (Option Decl)) (i : Nat) (d : Decl) : Array (Option Decl) :=
  let a := if i < a.size then a else a ++ Array.replicate (i + 1 - a.size) none
  a.set! i (some d)

def step (s : St) : List String → St × String
  | ["new", _, _, _, minor] =>
    match decNat? minor with
    | some m => ({ graph := #[], blocks := #[], ver := m }, "ok")
    | none => (s, "bad-op")
  | "ty" :: id :: rest =>
    match decNat? id, decl? rest with
    | some i, some d => ({ s with graph := setAt s.graph i d }, "ok")
    | _, _ => (s, "bad-op")
  | ["mem", addr, hex] =>
    match decNat? addr, unhexAux hex.toList ByteArray.empty with
    | some a, some bs => ({ s with blocks := s.blocks.push (a, bs) }, "ok")
    | _, _ => (s, "bad-op")
  | ["memreset"] => ({ s with blocks := #[] }, "ok")
  | ["constkey", raw] =>
    match decNat? raw with
    | some r => (s, match constKey r with | some k => (if k < 0 then "m" ++ toString k.natAbs else toString k) | none => "-")
    | none => (s, "bad-op")
  | ["discrkey", w, raw] =>
    match decNat? w, decNat? raw with
    | some w, some r => (s, let k := discrKey w r; if k < 0 then "m" ++ toString k.natAbs else toString k)
    | _, _ => (s, "bad-op")
  | ["val", kind, _name, tid, addr] =>
    if kind == "v" || kind == "d" then
      match decNat? tid, decNat? addr with
      | some t, some a =>
        (s, match decodeAt (ctxOf s) t a with | some v => render v | none => "none")
      | _, _ => (s, "bad-op")
    else (s, "bad-op")
  | ["val", "s", _name, tid, addr, from_, to] =>
    match decNat? tid, decNat? addr, decNat? from_, decNat? to with
    | some t, some a, some f, some u =>
      (s, match decodeSlice (ctxOf s) t a f u with | some v => render v | none => "none")
    | _, _, _, _ => (s, "bad-op")
  | _ => (s, "bad-op")

end Driver.C06
