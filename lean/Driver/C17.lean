import BsVerif.Core.Proto
import BsVerif.Model.PathIndex
import BsVerif.Model.FnPath
import BsVerif.Model.Symbols
namespace Driver.C17
open BsVerif BsVerif.Proto BsVerif.PathIndex BsVerif.Symbols

structure St where
  delim : String := "::"
  ix : Index Nat := {}
  /-- the registry of the symbol sessions (`new sym` / `symobj` / `symdel`) -/
  objs : List Entry := []

/-- `x<hex name>:<kind>:<addr>` -/
def decSym? (tok : String) : Option Sym :=
  match tok.splitOn ":" with
  | [n, k, a] => match decStr? n, decNat? k, decNat? a with
    | some n, some k, some a => some ⟨n, k, a⟩
    | _, _, _ => none
  | _ => none

def encSym (s : Sym) : String := s!"{encStr s.name}:{s.kind}:{s.addr}"

/-- `<0|1><0|1>x<hex literal>`: anchored at the start, anchored at the end, literal -/
def decAlt? (tok : String) : Option Alt :=
  match tok.toList with
  | a :: e :: rest =>
    if (a == '0' || a == '1') && (e == '0' || e == '1') then
      (decStr? (String.ofList rest)).map fun l => ⟨a == '1', e == '1', l.toList⟩
    else none
  | _ => none

def sortTokens (l : List String) : List String := l.mergeSort fun a b => !(b < a)

def step (s : St) : List String → St × String
  | ["new", d] => match decStr? d with
    | some d => ({ delim := d, ix := {} }, "ok")
    | none => (s, "bad-op")
  | ["newbin", _prog] => ({ delim := "::", ix := {} }, "ok")
  | ["insert", path, v] => match decList? decStr? path, decNat? v with
    | some p, some v => ({ s with ix := s.ix.insert p v }, "ok")
    | _, _ => (s, "bad-op")
  | ["insertwh", tail, head, v] => match decList? decStr? tail, decStr? head, decNat? v with
    | some t, some h, some v => ({ s with ix := s.ix.insertWHead t h v }, "ok")
    | _, _, _ => (s, "bad-op")
  | ["get", needle] => match decStr? needle with
    | some n => (s, encList toString (s.ix.get s.delim n))
    | none => (s, "bad-op")
  -- function paths (`NamespaceHierarchy::split_path`): a demangled name as `from_mangled` cuts it; the i-th function of a
  -- binary inserted under the components of its demangled name; `break <template>` through `search_functions`
  | ["fnpath", text] => match decStr? text with
    | some t => (s, encList encStr (BsVerif.FnPath.splitPath t))
    | none => (s, "bad-op")
  | ["insertfn", name, v] => match decStr? name, decNat? v with
    | some n, some v =>
      let (ns, h) := BsVerif.FnPath.fromDemangled n
      ({ s with ix := s.ix.insertWHead ns h v }, "ok")
    | _, _ => (s, "bad-op")
  | ["break", tpl] => match decStr? tpl with
    | some t => (s, encList toString (BsVerif.FnPath.searchFunctions s.ix t))
    | none => (s, "bad-op")
  -- symbol sessions
  | ["new", "sym", _prog] => ({ s with objs := [] }, "ok")
  | ["symobj", file, dwarf, symtab] =>
    let tab? : Option (Option (List Sym)) :=
      if symtab == "none" then some none else (decList? decSym? symtab).map some
    match decStr? file, dwarf, tab? with
    | some f, "0", some t => ({ s with objs := regAddE (load ⟨f, false, t, []⟩) s.objs }, "ok")
    | some f, "1", some t => ({ s with objs := regAddE (load ⟨f, true, t, []⟩) s.objs }, "ok")
    | _, _, _ => (s, "bad-op")
  | ["symdel", file] => match decStr? file with
    | some f => ({ s with objs := regRemoveE f s.objs }, "ok")
    | none => (s, "bad-op")
  | ["symrun", _tpl] => (s, "ok")
  | ["symobjs"] =>
    (s, encList id (sortTokens (s.objs.map fun e => s!"{encStr e.obj.file}:{if e.obj.hasDwarf then 1 else 0}")))
  -- the third token is written by the harness: the file names of the objects the process has mapped (observed
  -- independently of the debugger); a session whose `symobj` lines do not declare exactly those objects has fed the
  -- model the wrong registry, and both sides say so instead of answering
  | ["sym", alts, mapped] => match decList? decAlt? alts with
    | some [] => (s, "bad-op")
    | some as =>
      let declared := sortTokens (s.objs.map fun e => encStr e.obj.file)
      let seen := sortTokens (if mapped == "-" then [] else mapped.splitOn ",")
      if declared != seen then (s, "objects-not-declared")
      else (s, encList id (sortTokens ((getSymbolsE s.objs (patMatches as)).map encSym)))
    | none => (s, "bad-op")
  | _ => (s, "bad-op")

end Driver.C17
