import BsVerif.Core.Proto
import BsVerif.Model.PathIndex
namespace Driver.C17
open BsVerif BsVerif.Proto BsVerif.PathIndex

structure St where
  delim : String := "::"
  ix : Index Nat := {}

def step (s : St) : List String → St × String
  | ["new", d] => match decStr? d with
    | some d => ({ delim := d, ix := {} }, "ok")
    | none => (s, "bad-op")
  | ["newbin", _prog] => ({ delim := "::", ix := {} }, "ok")
  | ["insert", path, v] => match decList? decStr? path, decNat? v with
    | some p, some v => ({ s with ix := s.ix.insert p v }, "ok")
    | _, _ => (s, "bad-op")
  | ["insertwh", tail, head, v] => match decList? decStr? tail, decStr? head, decNat? v with
    | some t, some h, some v => ({ s with ix := s.ix.insertWHead t h v }, "ok")
    | _, _, _ => (s, "bad-op")
  | ["get", needle] => match decStr? needle with
    | some n => (s, encList toString (s.ix.get s.delim n))
    | none => (s, "bad-op")
  | _ => (s, "bad-op")

end Driver.C17
