-- This module serves as the root of the `BsVerif` library.
-- Import modules here that should be built as part of the library.
import BsVerif.Basic
