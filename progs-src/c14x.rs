// C14 live debuggee, variant of c14w.rs that EXITS INSIDE THE SCOPE of its locals (after stage 3), so that
// watchpoints on locals are still set when the debuggee exits.  Deterministic, no input / time / randomness.
// Globals G1..G6, a function with five locals, one thread created between consecutive sync points.
use std::hint::black_box;
use std::sync::atomic::{AtomicBool, Ordering};
use std::thread::{self, JoinHandle};

static mut G1: u64 = 1;
static mut G2: u32 = 2;
static mut G3: u16 = 3;
static mut G4: u8 = 4;
static mut G5: u64 = 5;
static mut G6: u64 = 6;
static STOP: AtomicBool = AtomicBool::new(false);

#[inline(never)]
fn sync_point(n: u32) -> u32 {
    black_box(n)
}

fn spawn_one() -> JoinHandle<()> {
    thread::spawn(|| {
        while !STOP.load(Ordering::Acquire) {
            thread::park();
        }
    })
}

#[inline(never)]
fn scoped(hs: &mut Vec<JoinHandle<()>>) -> u64 {
    let l1: u64 = 11;
    let l2: u64 = 12;
    let l3: u64 = 13;
    let l4: u64 = 14;
    let l5: u64 = 15;
    println!("ADDR l1 {:p}", &l1);
    println!("ADDR l2 {:p}", &l2);
    println!("ADDR l3 {:p}", &l3);
    println!("ADDR l4 {:p}", &l4);
    println!("ADDR l5 {:p}", &l5);
    sync_point(1); // STAGE 1
    hs.push(spawn_one());
    sync_point(2); // STAGE 2
    hs.push(spawn_one());
    sync_point(3); // STAGE 3
    if black_box(l1 + l2 + l3 + l4 + l5) == 65 {
        // the spawned threads are parked; the whole process goes away here
        std::process::exit(0);
    }
    0
}

fn main() {
    println!("ADDR G1 {:p}", &raw const G1);
    println!("ADDR G2 {:p}", &raw const G2);
    println!("ADDR G3 {:p}", &raw const G3);
    println!("ADDR G4 {:p}", &raw const G4);
    println!("ADDR G5 {:p}", &raw const G5);
    println!("ADDR G6 {:p}", &raw const G6);
    let mut hs: Vec<JoinHandle<()>> = vec![];
    sync_point(0); // STAGE 0
    let r = scoped(&mut hs);
    sync_point(4); // STAGE 4
    hs.push(spawn_one());
    sync_point(5); // STAGE 5
    unsafe {
        G1 = 101;
        G2 = 102;
        G3 = 103;
        G4 = 104;
        G5 = 105;
        G6 = 106;
    }
    sync_point(6); // STAGE 6
    STOP.store(true, Ordering::Release);
    for h in hs {
        h.thread().unpark();
        h.join().unwrap();
    }
    let s = unsafe { G1 + G2 as u64 + G3 as u64 + G4 as u64 + G5 + G6 };
    println!("done {}", r + s);
}
