// C05 debuggee: deep recursion (hundreds of frames), mutual recursion, calls through closures, trait objects
// and std iterator adaptors. Deterministic: no input, time or randomness.
// Ground truth used by the oracle: in `down(n, tag)` the argument `n` of the k-th enclosing `down` activation is n+k.

#[inline(never)]
fn leaf(x: u64) -> u64 {
    let y = x.wrapping_mul(3);
    y ^ 5
}

#[inline(never)]
fn down(n: u64, tag: u64) -> u64 {
    let here = n * 2 + tag;
    if n == 0 {
        return leaf(here);
    }
    let r = down(n - 1, tag);
    r.wrapping_add(here)
}

#[inline(never)]
fn ping(n: u64) -> u64 {
    if n == 0 { leaf(1) } else { pong(n - 1) + 1 }
}

#[inline(never)]
fn pong(n: u64) -> u64 {
    if n == 0 { leaf(2) } else { ping(n - 1) + 2 }
}

#[inline(never)]
fn via_closure(k: u64) -> u64 {
    let add = |v: u64| leaf(v + k);
    let twice = |v: u64| add(add(v));
    twice(k)
}

#[inline(never)]
fn via_dyn(f: &dyn Fn(u64) -> u64, v: u64) -> u64 {
    f(v) + 1
}

#[inline(never)]
fn via_iter(n: u64) -> u64 {
    (0..n).map(|i| leaf(i)).fold(0u64, |a, b| a.wrapping_add(b))
}

#[inline(never)]
fn via_sort(v: &mut Vec<u64>) -> u64 {
    v.sort_by(|a, b| leaf(*a).cmp(&leaf(*b)));
    v[0]
}

fn main() {
    let a = down(5, 1);
    let b = down(300, 2);
    let c = ping(41);
    let d = via_closure(3);
    let e = via_dyn(&|v| leaf(v) + d, 4);
    let f = via_iter(3);
    let mut v = vec![3u64, 1, 2];
    let g = via_sort(&mut v);
    println!("{} {} {} {} {} {} {}", a, b, c, d, e, f, g);
}
