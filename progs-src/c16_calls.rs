// C16 debuggee: deterministic; no input, time or randomness.
// * `f*` functions append (function id, every argument widened to 64 bits at ITS OWN type) to a static
//   log and bump a call counter; the log is printed at exit.  They are what the debugger's `call` injects.
// * `mix`, `leaf`, `spin` are the program's own work: many values live in registers / on the stack across
//   the stops, `leaf` is a leaf function (locals below the stack pointer), so that a call that does not
//   restore the state changes the checksums printed at the end.
#![allow(static_mut_refs)]

const CAP: usize = 256;
static mut LOG: [[u64; 7]; CAP] = [[0; 7]; CAP];
static mut NLOG: usize = 0;
static mut CALLS: u64 = 0;

#[inline(never)]
fn record(id: u64, a: [u64; 6]) {
    unsafe {
        CALLS += 1;
        if NLOG < CAP {
            LOG[NLOG] = [id, a[0], a[1], a[2], a[3], a[4], a[5]];
            NLOG += 1;
        }
    }
}

#[inline(never)] fn f0() { record(0, [0; 6]); }
#[inline(never)] fn f1_u8(a: u8) { record(1, [a as u64, 0, 0, 0, 0, 0]); }
#[inline(never)] fn f1_i8(a: i8) { record(2, [a as i64 as u64, 0, 0, 0, 0, 0]); }
#[inline(never)] fn f1_u16(a: u16) { record(3, [a as u64, 0, 0, 0, 0, 0]); }
#[inline(never)] fn f1_i16(a: i16) { record(4, [a as i64 as u64, 0, 0, 0, 0, 0]); }
#[inline(never)] fn f1_u32(a: u32) { record(5, [a as u64, 0, 0, 0, 0, 0]); }
#[inline(never)] fn f1_i32(a: i32) { record(6, [a as i64 as u64, 0, 0, 0, 0, 0]); }
#[inline(never)] fn f1_u64(a: u64) { record(7, [a, 0, 0, 0, 0, 0]); }
#[inline(never)] fn f1_i64(a: i64) { record(8, [a as u64, 0, 0, 0, 0, 0]); }
#[inline(never)] fn f1_usize(a: usize) { record(9, [a as u64, 0, 0, 0, 0, 0]); }
#[inline(never)] fn f1_isize(a: isize) { record(10, [a as i64 as u64, 0, 0, 0, 0, 0]); }
#[inline(never)] fn f1_bool(a: bool) { record(11, [a as u64, 0, 0, 0, 0, 0]); }
#[inline(never)] fn f1_ptr(a: *const u8) { record(12, [a as u64, 0, 0, 0, 0, 0]); }
#[inline(never)] fn f1_char(a: char) { record(13, [a as u64, 0, 0, 0, 0, 0]); }
#[inline(never)] fn f1_f64(a: f64) { record(14, [a.to_bits(), 0, 0, 0, 0, 0]); }
#[inline(never)] fn f1_pair(a: (u32, u32)) { record(15, [a.0 as u64, a.1 as u64, 0, 0, 0, 0]); }
#[inline(never)] fn f2(a: u8, b: i32) { record(20, [a as u64, b as i64 as u64, 0, 0, 0, 0]); }
#[inline(never)] fn f3(a: i16, b: u64, c: bool) { record(21, [a as i64 as u64, b, c as u64, 0, 0, 0]); }
#[inline(never)] fn f4(a: u32, b: i8, c: *const u8, d: u16) { record(22, [a as u64, b as i64 as u64, c as u64, d as u64, 0, 0]); }
#[inline(never)] fn f5(a: i64, b: u8, c: i32, d: bool, e: usize) { record(23, [a as u64, b as u64, c as i64 as u64, d as u64, e as u64, 0]); }
#[inline(never)] fn f6(a: u8, b: i16, c: u32, d: i64, e: bool, f: *const u8) { record(24, [a as u64, b as i64 as u64, c as u64, d as u64, e as u64, f as u64]); }
#[inline(never)] fn f6w(a: u64, b: u64, c: u64, d: u64, e: u64, f: u64) { record(25, [a, b, c, d, e, f]); }
#[inline(never)] fn f7(a: u64, b: u64, c: u64, d: u64, e: u64, f: u64, g: u64) { record(26, [a, b, c, d, e, f ^ g]); }

// keep every callable in the binary although the program itself uses only three of them
#[allow(dead_code)]
struct Keep([*const (); 23]);
unsafe impl Sync for Keep {}
#[used]
static KEEP: Keep = Keep([f0 as *const (), f1_u8 as *const (), f1_i8 as *const (), f1_u16 as *const (), f1_i16 as *const (), f1_u32 as *const (), f1_i32 as *const (), f1_u64 as *const (), f1_i64 as *const (), f1_usize as *const (), f1_isize as *const (), f1_bool as *const (), f1_ptr as *const (), f1_char as *const (), f1_f64 as *const (), f1_pair as *const (), f2 as *const (), f3 as *const (), f4 as *const (), f5 as *const (), f6 as *const (), f6w as *const (), f7 as *const ()]);

// ---- the program's own work -------------------------------------------------------------------------
#[inline(never)]
fn leaf(x: u64, y: u64) -> u64 {
    // leaf function: no calls (wrapping arithmetic never panics)
    let a = x.wrapping_mul(0x9E37_79B9_7F4A_7C15);
    let b = y.wrapping_add(a).rotate_left(13);
    let c = a ^ b;
    let d = c.wrapping_mul(31).wrapping_add(b);
    d ^ (a >> 7)
}

#[inline(never)]
fn mix(a: u64, b: u64, c: u64, d: u64, e: u64, f: u64) -> u64 {
    let p = leaf(a, b);
    let q = leaf(c, d);
    let r = leaf(e, f);
    p.wrapping_mul(3) ^ q.wrapping_mul(5) ^ r.wrapping_mul(7) ^ (a + b + c + d + e + f)
}

#[inline(never)]
fn spin(n: u64) -> u64 {
    let mut acc = 0u64;
    let mut i = 0u64;
    while i < n {
        acc = acc.wrapping_add(mix(i, i + 1, i + 2, acc, acc >> 3, i * i));
        if i % 3 == 0 {
            // the program's own use of a logged function
            f3((i as i16) - 2, acc & 0xffff, i % 2 == 0);
        }
        i += 1;
    }
    acc
}

fn main() {
    let s1 = spin(5);
    f2(7, -7);
    let s2 = mix(s1, 2, 3, 4, 5, 6);
    f6(1, -2, 3, -4, true, 0x1000 as *const u8);
    let s3 = leaf(s1, s2);
    println!("sums {s1:016x} {s2:016x} {s3:016x}");
    unsafe {
        println!("calls {CALLS}");
        for i in 0..NLOG {
            let e = LOG[i];
            println!("log {} {:x} {:x} {:x} {:x} {:x} {:x}", e[0], e[1], e[2], e[3], e[4], e[5], e[6]);
        }
    }
}
