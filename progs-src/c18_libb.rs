// C18 debuggee library B (cdylib): see c18_liba.rs. `c18_shared` exists in both libraries.
#[inline(never)]
fn b_inner(x: u64) -> u64 {
    let y = x.wrapping_mul(5);
    y.wrapping_add(2)
}

#[unsafe(no_mangle)]
pub extern "C" fn c18b_mul(a: u64, b: u64) -> u64 {
    let s = a.wrapping_mul(b);
    b_inner(s)
}

#[unsafe(no_mangle)]
pub extern "C" fn c18_shared(v: u64) -> u64 {
    let in_b = v.wrapping_add(0xB);
    in_b
}
