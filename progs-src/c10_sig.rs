// C10 debuggee: handler-counting program driven by a script (argv[1]); deterministic, libc-free declarations.
//   script = comma separated tokens, executed in order, each followed by a long straight-line-ish padding loop:
//     p        call `c10_point` (breakpoint site)
//     r<sig>   thread-directed signal to itself  (tkill(gettid, sig), raw syscall: delivered right after the instruction)
//     k<sig>   process-directed signal to itself (kill(getpid, sig))
//   every handled signal has a handler that only counts (SA_NODEFER | SA_RESTART, empty mask: nothing is ever blocked).
//   at exit: `counts <sig>:<n>,...` for every handled signal, on stdout.
use std::sync::atomic::{AtomicU32, Ordering};

pub const HANDLED: [i32; 13] = [1, 2, 10, 12, 14, 15, 17, 23, 26, 27, 28, 29, 3];

static COUNTS: [AtomicU32; 65] = [const { AtomicU32::new(0) }; 65];
static POINTS: AtomicU32 = AtomicU32::new(0);
static SINK: AtomicU32 = AtomicU32::new(0);

#[repr(C)]
struct KSigaction { handler: usize, mask: [u64; 16], flags: i32, restorer: usize }

unsafe extern "C" {
    fn sigaction(sig: i32, act: *const KSigaction, old: *mut KSigaction) -> i32;
}

extern "C" fn on_signal(sig: i32) {
    COUNTS[(sig as usize) & 63].fetch_add(1, Ordering::SeqCst);
}

#[inline(never)]
fn sys3(nr: u64, a: u64, b: u64, c: u64) -> i64 {
    let ret: i64;
    unsafe {
        core::arch::asm!("syscall", inlateout("rax") nr as i64 => ret, in("rdi") a, in("rsi") b, in("rdx") c,
                         lateout("rcx") _, lateout("r11") _, options(nostack));
    }
    ret
}

/// long enough that a bounded number of instruction steps never reaches the next script token
#[inline(never)]
pub fn c10_pad() {
    let mut acc = 0u32;
    for i in 0..3000u32 {
        acc = acc.wrapping_mul(31).wrapping_add(i);
    }
    SINK.store(acc, Ordering::SeqCst);
}

#[inline(never)]
pub fn c10_point() {
    POINTS.fetch_add(1, Ordering::SeqCst);
    c10_pad();
}

#[inline(never)]
pub fn c10_raise(sig: u64) {
    let tid = sys3(186, 0, 0, 0) as u64; // gettid
    sys3(200, tid, sig, 0); // tkill
    c10_pad();
}

#[inline(never)]
pub fn c10_kill(sig: u64) {
    let pid = sys3(39, 0, 0, 0) as u64; // getpid
    sys3(62, pid, sig, 0); // kill
    c10_pad();
}

fn main() {
    let script = std::env::args().nth(1).unwrap_or_default();
    for s in HANDLED {
        let act = KSigaction { handler: on_signal as usize, mask: [0; 16], flags: 0x4000_0000u32 as i32 | 0x1000_0000, restorer: 0 };
        unsafe { sigaction(s, &act, std::ptr::null_mut()); }
    }
    c10_pad();
    for tok in script.split(',') {
        let (k, n) = tok.split_at(tok.len().min(1));
        match k {
            "p" => c10_point(),
            "r" => c10_raise(n.parse().unwrap_or(0)),
            "k" => c10_kill(n.parse().unwrap_or(0)),
            _ => {}
        }
    }
    let mut h: Vec<i32> = HANDLED.to_vec();
    h.sort();
    let v: Vec<String> = h.iter().map(|s| format!("{}:{}", s, COUNTS[*s as usize].load(Ordering::SeqCst))).collect();
    println!("counts {} points {}", v.join(","), POINTS.load(Ordering::SeqCst));
}
