// C19 generated debuggee (tools/c19_gen.py 1); conventions: see progs-src/c19_scopes.rs
use std::hint::black_box;

#[inline(never)]
fn hold(v: u64) -> u64 {
    black_box(v)
}

#[inline(never)]
fn leaf(v: u64) -> u64 {
    let k: u64 = 210001;
    hold(v ^ k)
}

#[inline(never)]
fn f0(p: u64) -> u64 {
    let mut acc: u64 = 1;
    let x: u64 = hold(210002);
    {
        let b: u64 = hold(210003);
        {
            let y: u64 = hold(210004);
            let a: u64 = hold(210005);
            let c: u64 = hold(210006);
            let b: u64 = hold(210007);
            acc += leaf(x);
        }
        acc += leaf(x);
    }
    {
        let b: u64 = hold(210008);
        let d: u64 = hold(210009);
        let x: u64 = hold(210010);
        acc += leaf(x);
        let c: u64 = hold(210011);
        acc += leaf(c);
    }
    {
        let a: u64 = hold(210012);
        if acc % 2 == 1 {
            let x: u64 = hold(210013);
            acc += leaf(x);
        } else {
            acc += leaf(x);
        }
        acc += leaf(x);
    }
    acc += leaf(x);
    acc + p
}

#[inline(never)]
fn f1(p: u64) -> u64 {
    let mut acc: u64 = 1;
    let a: u64 = hold(210015);
    {
        acc += leaf(a);
        if acc % 2 == 0 {
            {
                let b: u64 = hold(210016);
                let x: u64 = hold(210017);
                acc += leaf(b);
            }
            acc += leaf(a);
            acc += leaf(a);
        } else {
            let x: u64 = hold(210018);
            let b: u64 = hold(210019);
            acc += leaf(b);
        }
        let a: u64 = hold(210020);
        let c: u64 = hold(210021);
        acc += leaf(a);
        acc += leaf(c);
    }
    acc += leaf(a);
    acc + p
}

#[inline(never)]
fn f2(p: u64) -> u64 {
    let mut acc: u64 = 1;
    let a: u64 = hold(210023);
    let mut i1: u64 = 0;
    while i1 < 2 {
        {
            let y: u64 = hold(210024);
            acc += leaf(a);
            acc += leaf(a);
        }
        let c: u64 = hold(210025);
        let d: u64 = hold(210026);
        acc += leaf(c);
        i1 += 1;
    }
    acc += leaf(a);
    acc + p
}

#[inline(never)]
fn f3(p: u64) -> u64 {
    let mut acc: u64 = 1;
    let b: u64 = hold(210028);
    {
        let d: u64 = hold(210029);
        acc += leaf(b + d);
        {
            let d: u64 = hold(210030);
            acc += leaf(d);
            let b: u64 = hold(210031);
            {
                let c: u64 = hold(210032);
                let d: u64 = hold(210033);
                acc += leaf(c);
            }
            acc += leaf(b);
        }
        {
            let d: u64 = hold(210034);
            acc += leaf(b);
            {
                acc += leaf(d);
            }
            acc += leaf(d);
        }
        acc += leaf(b);
    }
    acc += leaf(b);
    acc + p
}

#[inline(never)]
fn rec0(n: u64, tag: u64) -> u64 {
    let own: u64 = 2100360 + n;
    if n == 0 {
        let base: u64 = hold(210037);
        return leaf(base + own);
    }
    let below: u64 = rec0(n - 1, tag + 1);
    {
        let own: u64 = 2100380 + n;
        hold(own + below + tag)
    }
}

fn main() {
    let m0: u64 = hold(210039);
    let r0: u64 = f0(210014);
    let r1: u64 = f1(210022);
    let r2: u64 = f2(210027);
    let r3: u64 = f3(210035);
    let rr: u64 = rec0(3, 40);
    let sum: u64 = m0 ^ rr ^ r0 ^ r1 ^ r2 ^ r3;
    println!("{}", sum);
    std::process::exit((sum % 100) as i32);
}
