// C04 multi-unit debuggee, LIBRARY crate (built as an rlib by tools/progs.d/c04.sh, used by c04_mu.rs).
// The rows of this ONE source file end up in several compilation units of the binary:
//   * non-generic, non-inline functions are compiled in the library's unit(s),
//   * generic and #[inline] functions are compiled where they are instantiated (the binary crate's units,
//     and the library's unit when the library uses them itself).
// Functions follow each other WITHOUT blank lines on purpose: the last line of one function and the first
// line of the next are adjacent lines that live in different units.
// Deterministic: no input, no time, no randomness.
pub struct Counter {
    pub n: u64,
}
// generic, only instantiated by the binary crate (u32, u8)
pub fn scale<T: Into<u64>>(v: T) -> u64 {
    let x: u64 = v.into();
    x * 3
}
#[inline(never)] pub fn bump(c: &mut Counter) -> u64 {
    c.n += 1;
    c.n
}
pub fn twice<T: Copy + core::ops::Add<Output = T>>(v: T) -> T {
    let w = v;
    w + v
}
#[inline(never)] pub fn settle(c: &mut Counter, by: u64) -> u64 {
    c.n = c.n.wrapping_mul(31).wrapping_add(by);
    c.n % 1000
}
#[inline] pub fn inl_add(a: u64, b: u64) -> u64 {
    let s = a.wrapping_add(b);
    s ^ 1
}
#[inline(never)] pub fn plain_mix(a: u64, b: u64) -> u64 {
    let m = a.rotate_left(3);
    m ^ b
}
#[inline(always)] pub fn inl_always(a: u64) -> u64 {
    a.wrapping_mul(7)
}
// generic instantiated in BOTH crates: here with u16 (by `local_use`), in the binary with u8 and u64
pub fn clamp_to<T: PartialOrd + Copy>(v: T, lo: T, hi: T) -> T {
    if v < lo {
        return lo;
    }
    if v > hi { hi } else { v }
}
#[inline(never)] pub fn local_use(seed: u16) -> u64 {
    let a = clamp_to(seed, 3u16, 900u16);
    let b = inl_add(a as u64, 4);
    let c = inl_always(b);
    plain_mix(b, c)
}
pub struct Wrap<T> {
    pub v: T,
}
impl<T: Copy + Into<u64>> Wrap<T> {
    pub fn get(&self) -> u64 {
        self.v.into()
    }
    pub fn map_with<F: Fn(u64) -> u64>(&self, f: F) -> u64 {
        let g = self.get();
        f(g)
    }
}
impl Wrap<u16> {
    #[inline(never)] pub fn fixed(&self) -> u64 {
        self.v as u64 + 1
    }
}

pub mod deep {
    // a comment line: no code here in any unit; the next line has code only where `fold3` is instantiated
    pub fn fold3<T: Copy, F: Fn(T, T) -> T>(a: T, b: T, c: T, f: F) -> T {
        let ab = f(a, b);
        f(ab, c)
    }
    #[inline(never)] pub fn lib_fold() -> u64 {
        fold3(1u64, 2, 3, |x, y| x * 10 + y)
    }
    pub trait Shape {
        fn sides(&self) -> u64;
        fn describe(&self) -> u64 {
            self.sides() * 100
        }
    }
    pub struct Tri;
    impl Shape for Tri {
        fn sides(&self) -> u64 {
            3
        }
    }
}
