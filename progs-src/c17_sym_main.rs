// C17 symbol-listing debuggee executable. One source, two link modes selected by --cfg (tools/progs.d/c17.sh):
//   startup  libc17d.so (DWARF), libc17p.so (no DWARF), libc17s.so (no .symtab) linked at startup (DT_NEEDED, rpath $ORIGIN)
//   dl       libc17p.so and libc17s.so are loaded by dlopen() at run time, then c17m_after_dlopen() is called
// Deterministic: no input, no time, no randomness.
#[allow(unused_imports)]
use std::ffi::{c_char, c_int, c_void};

#[cfg(startup)]
#[link(name = "c17d")]
unsafe extern "C" {
    fn c17d_add(a: u64, b: u64) -> u64;
    fn c17_shared(v: u64) -> u64;
}
#[cfg(startup)]
#[link(name = "c17p")]
unsafe extern "C" {
    fn c17p_add(a: u64, b: u64) -> u64;
}
#[cfg(startup)]
#[link(name = "c17s")]
unsafe extern "C" {
    fn c17s_add(a: u64, b: u64) -> u64;
}

#[cfg(dl)]
unsafe extern "C" {
    fn dlopen(filename: *const c_char, flag: c_int) -> *mut c_void;
    fn dlsym(handle: *mut c_void, symbol: *const c_char) -> *mut c_void;
}

static mut ACC: u64 = 0;

pub mod work {
    #[inline(never)]
    pub fn local_work(x: u64) -> u64 {
        x.wrapping_add(1)
    }
    #[inline(never)]
    pub fn twice<T: Copy + core::ops::Add<Output = T>>(x: T) -> T {
        x + x
    }
}

#[unsafe(no_mangle)]
#[inline(never)]
pub extern "C" fn c17m_after_dlopen() {
    unsafe { ACC = ACC.wrapping_add(1) };
}

#[unsafe(no_mangle)]
pub static C17M_TABLE: [u64; 2] = [17, 71];

#[cfg(startup)]
fn run() -> u64 {
    let a = unsafe { c17d_add(work::local_work(1), 2) };
    let b = unsafe { c17p_add(work::twice(3u64), 4) };
    let c = unsafe { c17s_add(work::twice(5u32) as u64, 6) };
    c17m_after_dlopen();
    a.wrapping_add(b).wrapping_add(c).wrapping_add(unsafe { c17_shared(1) })
}

#[cfg(dl)]
fn run() -> u64 {
    let dir = std::env::current_exe().unwrap().canonicalize().unwrap().parent().unwrap().to_path_buf();
    let mut r = work::local_work(1).wrapping_add(work::twice(3u64)).wrapping_add(work::twice(5u32) as u64);
    for (lib, sym) in [("libc17p.so", "c17p_add"), ("libc17s.so", "c17s_add")] {
        let p = std::ffi::CString::new(dir.join(lib).to_str().unwrap()).unwrap();
        let h = unsafe { dlopen(p.as_ptr(), 2) };
        if h.is_null() {
            continue;
        }
        let s = std::ffi::CString::new(sym).unwrap();
        let f = unsafe { dlsym(h, s.as_ptr()) };
        if !f.is_null() {
            let f: extern "C" fn(u64, u64) -> u64 = unsafe { std::mem::transmute(f) };
            r = r.wrapping_add(f(1, 2));
        }
    }
    c17m_after_dlopen();
    r
}

fn main() {
    let v = run();
    println!("{v} {}", unsafe { ACC } + C17M_TABLE[0]);
}
