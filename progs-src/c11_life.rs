// C11 debuggee: a deterministic life cycle with known breakpoint sites and thread counts.
// usage: c11_life <nthreads> <e|a> [<gatepos 0|1> <gatefile>]
//   nthreads  helper threads alive between the two thread phases
//   e | a     end by exit(37) | by abort() (SIGABRT)
//   gate      with a gate file (pace points before every site park the program while <gatefile>.pause exists): spin (no sleeping) at gate position 0 (single thread, before the first site)
//             or 1 (all helper threads alive) until the file exists — this is where a debugger attaches.
// Before every site call the program reports `site <name> <threads alive>` on stdout: the harness takes the
// site sequence and the thread counts from a NATIVE run, never from the debugger.
use std::sync::atomic::{AtomicBool, AtomicUsize, Ordering};
use std::sync::Arc;

#[inline(never)]
fn site_a(x: u64) -> u64 { std::hint::black_box(x.wrapping_mul(3).wrapping_add(1)) }
#[inline(never)]
fn site_b(x: u64) -> u64 { std::hint::black_box(x.wrapping_mul(5).wrapping_add(7)) }
#[inline(never)]
fn site_c(x: u64) -> u64 { std::hint::black_box(x ^ 0x5a5a) }
#[inline(never)]
fn site_d(x: u64) -> u64 { std::hint::black_box(x.rotate_left(3)) }

/// a memory word nobody writes (hardware watchpoints on it never fire)
#[no_mangle]
pub static mut C11_QUIET_WORD: [u64; 4] = [11, 22, 33, 44];

fn gate(pos: &str, want: &Option<(String, String)>) {
    println!("gate {pos}");
    if let Some((p, file)) = want {
        if p == pos {
            while !std::path::Path::new(file).exists() {
                for _ in 0..20000 { std::hint::spin_loop(); }
                std::thread::yield_now();
            }
        }
    }
}

/// pace point: with a gate file, park here (reporting it once) while `<gatefile>.pause` exists — the harness uses
/// this to examine a released process at a well-defined place with all threads of the phase alive
fn pace(want: &Option<(String, String)>) {
    if let Some((_, file)) = want {
        let p = format!("{file}.pause");
        if std::path::Path::new(&p).exists() {
            println!("paused");
            while std::path::Path::new(&p).exists() {
                for _ in 0..20000 { std::hint::spin_loop(); }
                std::thread::yield_now();
            }
        }
    }
}

fn main() {
    let args: Vec<String> = std::env::args().collect();
    let n: usize = args.get(1).and_then(|s| s.parse().ok()).unwrap_or(0);
    let abort = args.get(2).map(|s| s == "a").unwrap_or(false);
    let want = match (args.get(3), args.get(4)) { (Some(p), Some(f)) => Some((p.clone(), f.clone())), _ => None };
    let mut acc: u64 = 1;
    gate("0", &want);
    pace(&want); println!("site a 1"); acc = site_a(acc);
    pace(&want); println!("site c 1"); acc = site_c(acc);
    let ready = Arc::new(AtomicUsize::new(0));
    let stop = Arc::new(AtomicBool::new(false));
    let mut hs = vec![];
    for i in 0..n {
        let (ready, stop) = (ready.clone(), stop.clone());
        hs.push(std::thread::spawn(move || {
            ready.fetch_add(1, Ordering::SeqCst);
            let mut k = i as u64;
            while !stop.load(Ordering::SeqCst) {
                for _ in 0..2000 { k = std::hint::black_box(k.wrapping_add(1)); }
                std::thread::yield_now();
            }
            k
        }));
    }
    while ready.load(Ordering::SeqCst) < n { std::thread::yield_now(); }
    gate("1", &want);
    pace(&want); println!("site b {}", n + 1); acc = site_b(acc);
    pace(&want); println!("site a {}", n + 1); acc = site_a(acc);
    pace(&want); println!("site d {}", n + 1); acc = site_d(acc);
    stop.store(true, Ordering::SeqCst);
    for h in hs { let _ = h.join(); }
    pace(&want); println!("site c 1"); acc = site_c(acc);
    pace(&want); println!("site b 1"); acc = site_b(acc);
    pace(&want);
    println!("acc {acc} {}", unsafe { std::ptr::addr_of!(C11_QUIET_WORD).read()[1] });
    if abort { std::process::abort(); }
    std::process::exit(37);
}
