// C04 debuggee: small functions that get inlined at opt-level=1, iterator chains, a generic used at two types,
// a recursion. Deterministic.
#[inline(always)]
fn sq(x: u32) -> u32 {
    x * x
}

#[inline]
fn add3(a: u32, b: u32, c: u32) -> u32 {
    let s = a + b;
    s + c
}

fn poly(x: u32) -> u32 {
    let a = sq(x);
    let b = sq(x + 1);
    add3(a, b, x)
}

#[inline(never)]
fn sum_to<T: Copy + std::ops::Add<Output = T>>(xs: &[T], zero: T) -> T {
    let mut acc = zero;
    for &x in xs {
        acc = acc + x;
    }
    acc
}

#[inline(never)]
fn depth(n: u32, acc: u32) -> u32 {
    if n == 0 {
        acc
    } else {
        depth(n - 1, acc + poly(n))
    }
}

struct Counter {
    n: u32,
}

impl Iterator for Counter {
    type Item = u32;
    fn next(&mut self) -> Option<u32> {
        if self.n < 6 {
            self.n += 1;
            Some(self.n)
        } else {
            None
        }
    }
}

fn main() {
    let v: Vec<u32> = Counter { n: 0 }.map(|x| poly(x)).filter(|x| x % 2 == 1).collect();
    let s1 = sum_to(&v, 0u32);
    let s2 = sum_to(&[1.5f32, 2.5], 0.0f32);
    let d = depth(4, 0);
    let t: u32 = (1..5).map(sq).sum();
    println!("{v:?} {s1} {s2} {d} {t}");
}
