// C18 debuggee: one source, three link modes selected by --cfg
//   plain    no library at all                                   (built PIE, non-PIE, static-pie, static)
//   startup  liba linked at startup (DT_NEEDED, rpath $ORIGIN)    (built PIE and non-PIE)
//   startup2 liba AND libb linked at startup
//   dl       libraries loaded by dlopen/dlclose following a script given as argv[1]
// Script (dl mode), one letter per operation, executed left to right:
//   A / B   dlopen liba / libb (RTLD_NOW|RTLD_LOCAL)       a / b   dlclose the most recent handle of liba / libb
//   1       call c18a_add      2  call c18b_mul      3  call c18_shared of liba    4  call c18_shared of libb
//   5       call c18a_via(callback in the executable)
//   .       c18_mark(): a function of the executable, a convenient place for a breakpoint between operations
// Operations on a library that is not loaded are skipped. Deterministic: no input besides argv, no time, no randomness.
#[allow(unused_imports)]
use std::ffi::{c_char, c_int, c_void};

#[cfg(dl)]
unsafe extern "C" {
    fn dlopen(filename: *const c_char, flag: c_int) -> *mut c_void;
    fn dlsym(handle: *mut c_void, symbol: *const c_char) -> *mut c_void;
    fn dlclose(handle: *mut c_void) -> c_int;
}

#[cfg(startup)]
#[link(name = "c18a")]
unsafe extern "C" {
    fn c18a_add(a: u64, b: u64) -> u64;
    fn c18a_via(cb: extern "C" fn(u64) -> u64, v: u64) -> u64;
    fn c18_shared(v: u64) -> u64;
}

#[cfg(startup2)]
#[link(name = "c18a")]
unsafe extern "C" {
    fn c18a_add(a: u64, b: u64) -> u64;
}
#[cfg(startup2)]
#[link(name = "c18b")]
unsafe extern "C" {
    fn c18b_mul(a: u64, b: u64) -> u64;
}

static mut ACC: u64 = 0;
static mut MARKS: u64 = 0;

#[inline(never)]
fn c18_mark() {
    unsafe { MARKS += 1 };
}

#[allow(dead_code)]
#[inline(never)]
fn c18_own(x: u64) -> u64 {
    let y = x.wrapping_mul(7);
    y.wrapping_add(3)
}

#[allow(dead_code)]
#[inline(never)]
extern "C" fn c18_callback(v: u64) -> u64 {
    let seen_in_callback = v.wrapping_add(1000);
    c18_own(seen_in_callback)
}

fn acc(v: u64) {
    unsafe { ACC = ACC.wrapping_mul(31).wrapping_add(v) };
}

#[cfg(plain)]
fn run() {
    c18_mark();
    acc(c18_own(5));
    c18_mark();
    acc(c18_callback(6));
    c18_mark();
}

#[cfg(startup)]
fn run() {
    c18_mark();
    acc(unsafe { c18a_add(2, 3) });
    c18_mark();
    acc(unsafe { c18a_via(c18_callback, 7) });
    c18_mark();
    acc(unsafe { c18_shared(9) });
    c18_mark();
    acc(c18_own(5));
    c18_mark();
}

#[cfg(startup2)]
fn run() {
    c18_mark();
    acc(unsafe { c18a_add(2, 3) });
    c18_mark();
    acc(unsafe { c18b_mul(4, 5) });
    c18_mark();
}

#[cfg(dl)]
fn run() {
    let script = std::env::args().nth(1).unwrap_or_default();
    let exe = std::env::current_exe().unwrap();
    let dir = exe.parent().unwrap();
    let pa = std::ffi::CString::new(dir.join("libc18a.so").to_str().unwrap()).unwrap();
    let pb = std::ffi::CString::new(dir.join("libc18b.so").to_str().unwrap()).unwrap();
    let mut ha: Vec<*mut c_void> = vec![];
    let mut hb: Vec<*mut c_void> = vec![];
    type F2 = extern "C" fn(u64, u64) -> u64;
    type F1 = extern "C" fn(u64) -> u64;
    type FV = extern "C" fn(extern "C" fn(u64) -> u64, u64) -> u64;
    let sym = |h: *mut c_void, n: &str| -> *mut c_void {
        let c = std::ffi::CString::new(n).unwrap();
        unsafe { dlsym(h, c.as_ptr()) }
    };
    for op in script.chars() {
        match op {
            'A' => {
                let h = unsafe { dlopen(pa.as_ptr(), 2) };
                if !h.is_null() { ha.push(h); }
            }
            'B' => {
                let h = unsafe { dlopen(pb.as_ptr(), 2) };
                if !h.is_null() { hb.push(h); }
            }
            'a' => { if let Some(h) = ha.pop() { unsafe { dlclose(h) }; } }
            'b' => { if let Some(h) = hb.pop() { unsafe { dlclose(h) }; } }
            '1' => { if let Some(h) = ha.last() { let f: F2 = unsafe { std::mem::transmute(sym(*h, "c18a_add")) }; acc(f(2, 3)); } }
            '2' => { if let Some(h) = hb.last() { let f: F2 = unsafe { std::mem::transmute(sym(*h, "c18b_mul")) }; acc(f(4, 5)); } }
            '3' => { if let Some(h) = ha.last() { let f: F1 = unsafe { std::mem::transmute(sym(*h, "c18_shared")) }; acc(f(9)); } }
            '4' => { if let Some(h) = hb.last() { let f: F1 = unsafe { std::mem::transmute(sym(*h, "c18_shared")) }; acc(f(9)); } }
            '5' => { if let Some(h) = ha.last() { let f: FV = unsafe { std::mem::transmute(sym(*h, "c18a_via")) }; acc(f(c18_callback, 7)); } }
            '.' => c18_mark(),
            _ => {}
        }
    }
}

fn main() {
    run();
    let (a, m) = unsafe { (ACC, MARKS) };
    println!("acc={a} marks={m}");
    std::process::exit(((a ^ m) % 100) as i32);
}
