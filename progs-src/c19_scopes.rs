// C19 debuggee: nested blocks, shadowing at several depths, sibling blocks, variables declared later,
// recursion with per-depth argument values, loops, a closure.  Deterministic: no input, time or randomness.
//
// CONVENTIONS (the harness derives the ground truth from this text alone, see harness/src/props/c19.rs):
//  * one statement per line; a block opens with a line ending in `{` and closes with a line starting with `}`;
//  * `let NAME: u64 = <LIT>;` / `let NAME: u64 = hold(<LIT>);` / `let NAME: u64 = <LIT> + n;` introduce a binding whose
//    value never changes (`n` = the recursion argument of the enclosing function); every LIT is unique in the
//    file, so a value read by the debugger identifies the binding (and, with `+ n`, the activation);
//  * `let mut NAME ...` bindings are mutable accumulators: their names count, their values do not;
//  * a binding is in scope from the line AFTER its `let` to the line of the `}` closing its block (exclusive).
use std::hint::black_box;

#[inline(never)]
fn hold(v: u64) -> u64 {
    black_box(v)
}

#[inline(never)]
fn leaf(v: u64) -> u64 {
    let k: u64 = 110001;
    hold(v ^ k)
}

#[inline(never)]
fn blocks(p: u64, q: u64) -> u64 {
    let a: u64 = hold(120001);
    let mut acc: u64 = 7;
    {
        let b: u64 = hold(120002);
        acc += leaf(b);
        {
            let a: u64 = hold(120003);
            acc += leaf(a);
            {
                let a: u64 = hold(120004);
                let b: u64 = hold(120005);
                acc += leaf(a + b);
            }
            acc += leaf(a);
        }
        let c: u64 = hold(120006);
        acc += leaf(c + a);
    }
    {
        let d: u64 = hold(120007);
        let b: u64 = hold(120008);
        acc += leaf(d + b);
    }
    let a: u64 = hold(120009);
    acc += leaf(a);
    let e: u64 = hold(120010);
    acc += leaf(e);
    acc + p + q
}

#[inline(never)]
fn looper(lim: u64) -> u64 {
    let mut total: u64 = 3;
    let mut i: u64 = 0;
    while i < lim {
        let x: u64 = hold(130001);
        if i % 2 == 0 {
            let y: u64 = hold(130002);
            total += leaf(x + y);
        } else {
            let z: u64 = hold(130003);
            let x: u64 = hold(130004);
            total += leaf(x + z);
        }
        total += leaf(x);
        i += 1;
    }
    let x: u64 = hold(130005);
    total + leaf(x)
}

#[inline(never)]
fn rec(n: u64, tag: u64) -> u64 {
    let own: u64 = 140000 + n;
    if n == 0 {
        let base: u64 = hold(140100);
        return leaf(base + own);
    }
    let below: u64 = rec(n - 1, tag + 1);
    {
        let own: u64 = 140200 + n;
        hold(own + below + tag)
    }
}

#[inline(never)]
fn multi(n: u64, w: u64) -> u64 {
    let lv: u64 = 150000 + n;
    let r: u64;
    if n == 3 {
        let s3: u64 = hold(150103);
        r = multi(2, w + s3);
    } else if n == 2 {
        let s2: u64 = hold(150102);
        r = multi(1, w + s2);
    } else if n == 1 {
        let s1: u64 = hold(150101);
        r = multi(0, w + s1);
    } else {
        let s0: u64 = hold(150100);
        r = leaf(w + s0);
    }
    hold(r + lv)
}

#[inline(never)]
fn apply(f: &dyn Fn(u64) -> u64, v: u64) -> u64 {
    let before: u64 = hold(160001);
    let got: u64 = f(v + before);
    hold(got)
}

#[inline(never)]
fn closures(seed: u64) -> u64 {
    let cap: u64 = hold(170001);
    let f = |arg: u64| {
        let inner: u64 = hold(170002);
        let cap2: u64 = hold(170003);
        leaf(arg + inner + cap + cap2)
    };
    let first: u64 = apply(&f, seed);
    {
        let cap: u64 = hold(170004);
        let second: u64 = apply(&f, cap);
        hold(first + second)
    }
}

#[inline(never)]
fn tail_call_in_block(t: u64) -> u64 {
    let keep: u64 = hold(180001);
    let mut out: u64 = 1;
    {
        let last: u64 = hold(180002);
        out += leaf(last + t);
    }
    out + keep
}

#[inline(never)]
fn call_last_in_block(t: u64) -> u64 {
    let keep: u64 = hold(185001);
    {
        let last: u64 = hold(185002);
        leaf(last + t);
    }
    hold(keep)
}

fn main() {
    let m1: u64 = hold(190001);
    let r1: u64 = blocks(m1, 5);
    let r2: u64 = looper(3);
    let r3: u64 = rec(3, 40);
    let r4: u64 = multi(3, 9);
    let r5: u64 = closures(11);
    let r6: u64 = tail_call_in_block(2);
    let r7: u64 = call_last_in_block(2);
    let sum: u64 = r1 ^ r2 ^ r3 ^ r4 ^ r5 ^ r6 ^ r7;
    println!("{}", sum);
    std::process::exit((sum % 100) as i32);
}
