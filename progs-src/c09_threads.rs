// C09 debuggee: N threads racing through two breakpoint-able functions while threads are created and exit.
// usage: c09_threads <n> <iters> <seed> <pin>
//   n      worker threads started by main (slots 1..=n); every even slot also starts one short-lived helper thread
//          in the middle of its loop (slots 33..), so threads are born and die while others sit on the breakpoint
//   iters  calls of `site_a` per worker (every third iteration also calls `site_b`)
//   seed   drives the per-thread yield pattern (nothing else: the printed result does not depend on it)
//   pin    >= 0: the whole process is pinned to that CPU (sched_setaffinity), so only one thread runs at a time
// Output (deterministic except the `tid=` fields, which the harness strips before comparing with the native run):
//   slot=<i> tid=<kernel tid> a=<calls of site_a> b=<calls of site_b> acc=<checksum>
// std only; no input, time or randomness.
use std::sync::atomic::{AtomicU64, Ordering};
use std::thread;

unsafe extern "C" {
    fn syscall(n: i64, ...) -> i64;
}

const SLOTS: usize = 80;
static A: [AtomicU64; SLOTS] = [const { AtomicU64::new(0) }; SLOTS];
static B: [AtomicU64; SLOTS] = [const { AtomicU64::new(0) }; SLOTS];
static TID: [AtomicU64; SLOTS] = [const { AtomicU64::new(0) }; SLOTS];
static ACC: [AtomicU64; SLOTS] = [const { AtomicU64::new(0) }; SLOTS];

fn gettid() -> u64 {
    unsafe { syscall(186) as u64 }
}

#[inline(never)]
pub fn site_a(slot: usize, v: u64) -> u64 {
    A[slot].fetch_add(1, Ordering::SeqCst);
    v.wrapping_mul(31).wrapping_add(slot as u64 + 1)
}

#[inline(never)]
pub fn site_b(slot: usize, v: u64) -> u64 {
    B[slot].fetch_add(1, Ordering::SeqCst);
    v.wrapping_mul(17) ^ (slot as u64 + 3)
}

#[inline(never)]
pub fn ready(n: u64) -> u64 {
    n + 1
}

fn helper(slot: usize) {
    TID[slot].store(gettid(), Ordering::SeqCst);
    let mut acc = 7u64;
    acc = site_a(slot, acc);
    acc = site_b(slot, acc);
    ACC[slot].store(acc, Ordering::SeqCst);
}

fn worker(slot: usize, iters: u64, seed: u64) {
    TID[slot].store(gettid(), Ordering::SeqCst);
    let mut rng = seed.wrapping_mul(6364136223846793005).wrapping_add((slot as u64).wrapping_mul(1442695040888963407).wrapping_add(1));
    let mut acc = slot as u64;
    let mut child = None;
    for i in 0..iters {
        rng = rng.wrapping_mul(6364136223846793005).wrapping_add(1442695040888963407);
        if (rng >> 33) % 3 == 0 {
            thread::yield_now();
        }
        acc = site_a(slot, acc);
        if i % 3 == 1 {
            acc = site_b(slot, acc);
        }
        if slot % 2 == 0 && i == iters / 2 {
            let hs = 32 + slot;
            child = Some(thread::spawn(move || helper(hs)));
        }
        if (rng >> 40) % 4 == 0 {
            thread::yield_now();
        }
    }
    if let Some(c) = child {
        c.join().unwrap();
    }
    ACC[slot].store(acc, Ordering::SeqCst);
}

fn main() {
    let args: Vec<String> = std::env::args().collect();
    let n: usize = args.get(1).and_then(|s| s.parse().ok()).unwrap_or(2).min(31);
    let iters: u64 = args.get(2).and_then(|s| s.parse().ok()).unwrap_or(3);
    let seed: u64 = args.get(3).and_then(|s| s.parse().ok()).unwrap_or(1);
    let pin: i64 = args.get(4).and_then(|s| s.parse().ok()).unwrap_or(-1);
    if pin >= 0 {
        let mut mask = [0u64; 16];
        mask[(pin as usize / 64) % 16] = 1u64 << (pin as usize % 64);
        unsafe { syscall(203, 0i64, 128i64, mask.as_ptr()) };
    }
    TID[0].store(gettid(), Ordering::SeqCst);
    let r = ready(n as u64);
    let mut hs = vec![];
    // first half of the workers, then main itself races, then the second half is created while the first runs
    for slot in 1..=n / 2 {
        hs.push(thread::spawn(move || worker(slot, iters, seed)));
    }
    let mut acc = r;
    acc = site_a(0, acc);
    for slot in n / 2 + 1..=n {
        hs.push(thread::spawn(move || worker(slot, iters, seed)));
    }
    acc = site_b(0, acc);
    acc = site_a(0, acc);
    for h in hs {
        h.join().unwrap();
    }
    ACC[0].store(acc, Ordering::SeqCst);
    for slot in 0..SLOTS {
        let t = TID[slot].load(Ordering::SeqCst);
        if t != 0 {
            println!(
                "slot={} tid={} a={} b={} acc={}",
                slot,
                t,
                A[slot].load(Ordering::SeqCst),
                B[slot].load(Ordering::SeqCst),
                ACC[slot].load(Ordering::SeqCst)
            );
        }
    }
}
