// C18 debuggee library A (cdylib): plain arithmetic, a callback into the caller (so that a backtrace taken inside
// the callback runs THROUGH a library frame), and a function whose name also exists in library B.
// Deterministic; no std I/O, no thread locals (so that dlclose really unmaps the object).
#![allow(clippy::missing_safety_doc)]

#[inline(never)]
fn a_inner(x: u64) -> u64 {
    let y = x.wrapping_mul(3);
    y.wrapping_add(1)
}

#[unsafe(no_mangle)]
pub extern "C" fn c18a_add(a: u64, b: u64) -> u64 {
    let s = a.wrapping_add(b);
    a_inner(s)
}

#[unsafe(no_mangle)]
pub extern "C" fn c18a_via(cb: extern "C" fn(u64) -> u64, v: u64) -> u64 {
    let local_in_lib = v.wrapping_add(100);
    let r = cb(local_in_lib);
    r.wrapping_add(local_in_lib)
}

#[unsafe(no_mangle)]
pub extern "C" fn c18_shared(v: u64) -> u64 {
    let in_a = v.wrapping_add(0xA);
    in_a
}
