// C17 end-to-end: function paths with modules, generics (two instantiations), same leaf name in different
// modules, inherent and trait methods. Leaf names are unusual (`zq_*`) so that no std function shares them.
use std::fmt::Debug;

pub mod alpha {
    pub mod beta {
        #[inline(never)]
        pub fn zq_ident<T: std::fmt::Debug>(x: T) -> T {
            let y = x;
            y
        }
        #[inline(never)]
        pub fn zq_plain(x: u32) -> u32 {
            x + 1
        }
    }
    #[inline(never)]
    pub fn zq_plain(x: u32) -> u32 {
        x + 2
    }
}

pub mod gamma {
    #[inline(never)]
    pub fn zq_ident(x: u8) -> u8 {
        x
    }
    pub mod alpha {
        #[inline(never)]
        pub fn zq_deep(x: u8) -> u8 {
            x + 3
        }
    }
}

pub struct Zq(pub u64);
impl Zq {
    #[inline(never)]
    pub fn zq_method(&self) -> u64 {
        self.0 + 1
    }
}
pub trait ZqT {
    fn zq_tm(&self) -> u64;
}
impl ZqT for Zq {
    #[inline(never)]
    fn zq_tm(&self) -> u64 {
        self.0 * 2
    }
}

#[inline(never)]
fn show<T: Debug>(t: T) -> usize {
    format!("{t:?}").len()
}

fn main() {
    let p = alpha::beta::zq_ident(vec![1u8, 2]);
    let q = alpha::beta::zq_ident(7u64);
    let r = alpha::beta::zq_plain(3) + alpha::zq_plain(4);
    let s = gamma::zq_ident(9) + gamma::alpha::zq_deep(1);
    let z = Zq(5);
    println!("{:?} {} {} {} {} {} {}", p, q, r, s, z.zq_method(), z.zq_tm(), show(q));
}
