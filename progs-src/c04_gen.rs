// C04 debuggee: generics instantiated twice, closures (one-line and multi-line), recursion, trait impls.
// Deterministic: no input, no time, no randomness.
use std::fmt::Debug;

mod shapes {
    pub trait Area {
        fn area(&self) -> u64;
        fn name(&self) -> &'static str {
            "shape"
        }
    }
    pub struct Sq(pub u64);
    pub struct Rect(pub u64, pub u64);
    impl Area for Sq {
        fn area(&self) -> u64 {
            self.0 * self.0
        }
        fn name(&self) -> &'static str {
            "sq"
        }
    }
    impl Area for Rect {
        fn area(&self) -> u64 {
            let w = self.0;
            let h = self.1;
            w * h
        }
    }
}

#[inline(never)]
fn ident<T: Debug>(x: T) -> T {
    let y = x;
    y
}

#[inline(never)]
fn largest<T: PartialOrd + Copy>(xs: &[T]) -> T {
    let mut m = xs[0];
    for &x in xs {
        if x > m {
            m = x;
        }
    }
    m
}

#[inline(never)]
fn fact(n: u64) -> u64 {
    if n <= 1 {
        return 1;
    }
    n * fact(n - 1)
}

#[inline(never)]
fn fib(n: u32) -> u32 {
    match n {
        0 => 0,
        1 => 1,
        _ => fib(n - 1) + fib(n - 2),
    }
}

#[inline(never)]
fn apply<F: Fn(u64) -> u64>(f: F, v: u64) -> u64 {
    f(v)
}

fn total(shapes: &[&dyn shapes::Area]) -> u64 {
    let mut t = 0;
    for s in shapes {
        t += s.area();
    }
    t
}

fn main() {
    let a = ident(7u64);
    let b = ident(vec![1u8, 2, 3]);
    let c = largest(&[3i32, 9, 4]);
    let d = largest(&[2.5f64, 1.5]);
    let inc = |x: u64| x + 1; let dbl = |x: u64| x * 2;
    let e = apply(inc, a) + apply(dbl, a);
    let k = 10u64;
    let f = apply(
        move |x| {
            let y = x + k;
            y * 3
        },
        e,
    );
    let g = fact(5) + fib(7) as u64;
    let sq = shapes::Sq(3);
    let re = shapes::Rect(2, 5);
    let h = total(&[&sq, &re]);
    let names = [shapes::Area::name(&sq), shapes::Area::name(&re)];
    println!("{a} {b:?} {c} {d} {e} {f} {g} {h} {names:?}");
}
