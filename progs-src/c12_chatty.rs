// C12 debuggee: deterministic, no input, prints a lot to stdout and stderr (exercises the two DAP
// output forwarders). With the argument `threads` it also starts and joins two worker threads.
// (the marker `spawn1` sits on the statement that creates the first worker: sessions stop there and step over it.)
// Lines carrying a `BP:<name>` marker are looked up by the harness (never hard-code line numbers).
use std::io::Write;

fn burst(tag: &str, n: u64) {
    for k in 0..n {
        println!("stdout {tag} {k:04} ........................................");
        eprintln!("stderr {tag} {k:04} ........................");
    }
    std::io::stdout().flush().unwrap();
}

fn work(i: u64) -> u64 {
    let x = i * 3 + 1; // BP:work
    println!("stdout work {i} {x}");
    eprintln!("stderr work {i} {x}");
    x
}

fn worker(id: u64) -> u64 {
    let mut s = 0;
    for k in 0..20 {
        s += k * id;
        println!("stdout thread {id} {k}");
    }
    s
}

fn main() {
    let threads = std::env::args().nth(1).as_deref() == Some("threads");
    let mut acc = 0u64;
    burst("a", 150);
    for i in 0..3 {
        acc += work(i);
    }
    if threads {
        let h1 = std::thread::spawn(|| worker(1)); // BP:spawn1
        let r1 = h1.join().unwrap();
        let h2 = std::thread::spawn(|| worker(2));
        let r2 = h2.join().unwrap();
        acc += r1 + r2; // BP:joined
    }
    burst("b", 150);
    println!("stdout acc={acc}"); // BP:end
    eprintln!("stderr done");
    std::process::exit((acc % 7) as i32);
}
