// C15 debuggee: a 10-page window with a known byte pattern and a fixed mapping layout
//   pages 0,1  unmapped (munmap)          pages 2,3  read-write
//   page  4    unmapped (munmap)          page  5    read-write
//   page  6    read-only                  page  7    PROT_NONE
//   pages 8,9  unmapped (munmap)
// Deterministic: no input, no time, no randomness.  The window base is printed and kept in ARENA.
use std::ffi::c_void;
use std::hint::black_box;

unsafe extern "C" {
    fn mmap(addr: *mut c_void, len: usize, prot: i32, flags: i32, fd: i32, off: i64) -> *mut c_void;
    fn mprotect(addr: *mut c_void, len: usize, prot: i32) -> i32;
    fn munmap(addr: *mut c_void, len: usize) -> i32;
}

const PAGE: usize = 4096;
const NPAGES: usize = 10;
pub static mut ARENA: usize = 0;

#[inline(never)]
fn pattern(i: usize) -> u8 {
    ((i * 7 + (i >> 8) * 13 + 1) % 251) as u8
}

#[repr(C)]
pub struct Pack {
    pub guard_lo: u64,
    pub a: u8,
    pub b: i8,
    pub c: u16,
    pub d: i32,
    pub e: u64,
    pub f: i16,
    pub g: u8,
    pub h: bool,
    pub i: u32,
    pub guard_hi: u64,
}

#[inline(never)]
fn checkpoint(base: usize, pack: &mut Pack) -> usize {
    let seen = black_box(base) + black_box(pack.a as usize);
    black_box(seen) // BREAK
}

// functions of varying size, laid out one after the other: the harness looks (in the ELF symbol table) for one
// whose end address is the start address of the next one (no padding) for the disassembly test
#[inline(never)]
fn pad0(x: u64) -> u64 {
    let v = black_box(x);
    v
}

#[inline(never)]
fn pad1(x: u64) -> u64 {
    let mut v = black_box(x);
    v = black_box(v.wrapping_add(1));
    v
}

#[inline(never)]
fn pad2(x: u64) -> u64 {
    let mut v = black_box(x);
    v = black_box(v.wrapping_add(1));
    v = black_box(v.wrapping_add(2));
    v
}

#[inline(never)]
fn pad3(x: u64) -> u64 {
    let mut v = black_box(x);
    v = black_box(v.wrapping_add(1));
    v = black_box(v.wrapping_add(2));
    v = black_box(v.wrapping_add(3));
    v
}

#[inline(never)]
fn pad4(x: u64) -> u64 {
    let mut v = black_box(x);
    v = black_box(v.wrapping_add(1));
    v = black_box(v.wrapping_add(2));
    v = black_box(v.wrapping_add(3));
    v = black_box(v.wrapping_add(4));
    v
}

#[inline(never)]
fn pad5(x: u64) -> u64 {
    let mut v = black_box(x);
    v = black_box(v.wrapping_add(1));
    v = black_box(v.wrapping_add(2));
    v = black_box(v.wrapping_add(3));
    v = black_box(v.wrapping_add(4));
    v = black_box(v.wrapping_add(5));
    v
}

#[inline(never)]
fn pad6(x: u64) -> u64 {
    let mut v = black_box(x);
    v = black_box(v.wrapping_add(1));
    v = black_box(v.wrapping_add(2));
    v = black_box(v.wrapping_add(3));
    v = black_box(v.wrapping_add(4));
    v = black_box(v.wrapping_add(5));
    v = black_box(v.wrapping_add(6));
    v
}

#[inline(never)]
fn pad7(x: u64) -> u64 {
    let mut v = black_box(x);
    v = black_box(v.wrapping_add(1));
    v = black_box(v.wrapping_add(2));
    v = black_box(v.wrapping_add(3));
    v = black_box(v.wrapping_add(4));
    v = black_box(v.wrapping_add(5));
    v = black_box(v.wrapping_add(6));
    v = black_box(v.wrapping_add(7));
    v
}

#[inline(never)]
fn pad8(x: u64) -> u64 {
    let mut v = black_box(x);
    v = black_box(v.wrapping_add(1));
    v = black_box(v.wrapping_add(2));
    v = black_box(v.wrapping_add(3));
    v = black_box(v.wrapping_add(4));
    v = black_box(v.wrapping_add(5));
    v = black_box(v.wrapping_add(6));
    v = black_box(v.wrapping_add(7));
    v = black_box(v.wrapping_add(8));
    v
}

#[inline(never)]
fn pad9(x: u64) -> u64 {
    let mut v = black_box(x);
    v = black_box(v.wrapping_add(1));
    v = black_box(v.wrapping_add(2));
    v = black_box(v.wrapping_add(3));
    v = black_box(v.wrapping_add(4));
    v = black_box(v.wrapping_add(5));
    v = black_box(v.wrapping_add(6));
    v = black_box(v.wrapping_add(7));
    v = black_box(v.wrapping_add(8));
    v = black_box(v.wrapping_add(9));
    v
}

#[inline(never)]
fn pad10(x: u64) -> u64 {
    let mut v = black_box(x);
    v = black_box(v.wrapping_add(1));
    v = black_box(v.wrapping_add(2));
    v = black_box(v.wrapping_add(3));
    v = black_box(v.wrapping_add(4));
    v = black_box(v.wrapping_add(5));
    v = black_box(v.wrapping_add(6));
    v = black_box(v.wrapping_add(7));
    v = black_box(v.wrapping_add(8));
    v = black_box(v.wrapping_add(9));
    v = black_box(v.wrapping_add(10));
    v
}

#[inline(never)]
fn pad11(x: u64) -> u64 {
    let mut v = black_box(x);
    v = black_box(v.wrapping_add(1));
    v = black_box(v.wrapping_add(2));
    v = black_box(v.wrapping_add(3));
    v = black_box(v.wrapping_add(4));
    v = black_box(v.wrapping_add(5));
    v = black_box(v.wrapping_add(6));
    v = black_box(v.wrapping_add(7));
    v = black_box(v.wrapping_add(8));
    v = black_box(v.wrapping_add(9));
    v = black_box(v.wrapping_add(10));
    v = black_box(v.wrapping_add(11));
    v
}

#[inline(never)]
fn pad12(x: u64) -> u64 {
    let mut v = black_box(x);
    v = black_box(v.wrapping_add(1));
    v = black_box(v.wrapping_add(2));
    v = black_box(v.wrapping_add(3));
    v = black_box(v.wrapping_add(4));
    v = black_box(v.wrapping_add(5));
    v = black_box(v.wrapping_add(6));
    v = black_box(v.wrapping_add(7));
    v = black_box(v.wrapping_add(8));
    v = black_box(v.wrapping_add(9));
    v = black_box(v.wrapping_add(10));
    v = black_box(v.wrapping_add(11));
    v = black_box(v.wrapping_add(12));
    v
}

#[inline(never)]
fn pad13(x: u64) -> u64 {
    let mut v = black_box(x);
    v = black_box(v.wrapping_add(1));
    v = black_box(v.wrapping_add(2));
    v = black_box(v.wrapping_add(3));
    v = black_box(v.wrapping_add(4));
    v = black_box(v.wrapping_add(5));
    v = black_box(v.wrapping_add(6));
    v = black_box(v.wrapping_add(7));
    v = black_box(v.wrapping_add(8));
    v = black_box(v.wrapping_add(9));
    v = black_box(v.wrapping_add(10));
    v = black_box(v.wrapping_add(11));
    v = black_box(v.wrapping_add(12));
    v = black_box(v.wrapping_add(13));
    v
}

#[inline(never)]
fn page_sum(p: usize) -> u32 {
    let mut h: u32 = 0;
    for i in 0..PAGE {
        let b = unsafe { *((p + i) as *const u8) };
        h = h.wrapping_mul(31).wrapping_add(b as u32 + 1);
    }
    h
}

fn main() {
    unsafe {
        let mut acc = 0u64;
        acc = pad0(acc);
        acc = pad1(acc);
        acc = pad2(acc);
        acc = pad3(acc);
        acc = pad4(acc);
        acc = pad5(acc);
        acc = pad6(acc);
        acc = pad7(acc);
        acc = pad8(acc);
        acc = pad9(acc);
        acc = pad10(acc);
        acc = pad11(acc);
        acc = pad12(acc);
        acc = pad13(acc);
        black_box(acc);
        let hint = 0x6000_0000_0000usize as *mut c_void;
        let p = mmap(hint, NPAGES * PAGE, 3, 0x22, -1, 0) as usize;
        if p == usize::MAX {
            println!("mmap failed");
            return;
        }
        for i in 0..NPAGES * PAGE {
            *((p + i) as *mut u8) = pattern(i);
        }
        munmap(p as *mut c_void, 2 * PAGE);
        munmap((p + 4 * PAGE) as *mut c_void, PAGE);
        munmap((p + 8 * PAGE) as *mut c_void, 2 * PAGE);
        mprotect((p + 6 * PAGE) as *mut c_void, PAGE, 1);
        mprotect((p + 7 * PAGE) as *mut c_void, PAGE, 0);
        ARENA = p;
        println!("arena {p:#x}");
        let mut pack = Pack {
            guard_lo: 0x1111_1111_1111_1111, a: 1, b: -2, c: 3, d: -4, e: 5, f: -6, g: 7, h: true, i: 9,
            guard_hi: 0x2222_2222_2222_2222,
        };
        let r = checkpoint(p, &mut pack);
        black_box(r);
        // after the debugger's writes: what the PROGRAM sees
        mprotect((p + 7 * PAGE) as *mut c_void, PAGE, 1);
        for pg in [2usize, 3, 5, 6, 7] {
            println!("sum {pg} {}", page_sum(p + pg * PAGE));
        }
        println!("pack {} {} {} {} {} {} {} {} {} {:#x} {:#x}", pack.a, pack.b, pack.c, pack.d, pack.e, pack.f, pack.g, pack.h, pack.i, pack.guard_lo, pack.guard_hi);
    }
}
