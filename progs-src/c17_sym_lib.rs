// C17 symbol-listing debuggee library (cdylib, no_std so that the ELF symbol table stays small). One source, three
// builds selected by --cfg (tools/progs.d/c17.sh):
//   d   libc17d.so  built with -g:                    .symtab + DWARF units
//   p   libc17p.so  built with -C strip=debuginfo:    .symtab, NO DWARF units (what a cargo release profile produces)
//   s   libc17s.so  built with -C strip=symbols:      only .dynsym (no .symtab, no DWARF)
// Every build exports  c17<x>_add, c17<x>_unused, C17<X>_TABLE  and the name  c17_shared  (defined by ALL libraries),
// and contains mangled Rust paths  c17lib<x>::inner::scale, a generic, a trait impl and a closure.
// Deterministic; no I/O.
#![no_std]
#![allow(clippy::missing_safety_doc)]

#[panic_handler]
fn panic(_: &core::panic::PanicInfo) -> ! {
    loop {}
}

pub mod inner {
    #[inline(never)]
    pub fn scale(x: u64) -> u64 {
        core::hint::black_box(x).wrapping_mul(3)
    }

    #[inline(never)]
    pub fn pick<T: Copy>(a: T, b: T, first: bool) -> T {
        if core::hint::black_box(first) { a } else { b }
    }

    pub trait Weigh {
        fn weigh(&self) -> u64;
    }
    pub struct Stone(pub u64);
    impl Weigh for Stone {
        #[inline(never)]
        fn weigh(&self) -> u64 {
            self.0.wrapping_add(9)
        }
    }
    impl Weigh for (u64, u64) {
        #[inline(never)]
        fn weigh(&self) -> u64 {
            self.0.wrapping_add(self.1)
        }
    }

    #[inline(never)]
    pub fn apply(f: &dyn Fn(u64) -> u64, v: u64) -> u64 {
        f(v)
    }
}

#[inline(never)]
fn body(a: u64, b: u64) -> u64 {
    use inner::Weigh;
    let k = inner::pick(a, b, true).wrapping_add(inner::pick(1u8, 2u8, false) as u64);
    let c = move |v: u64| v.wrapping_add(k);
    inner::scale(a)
        .wrapping_add(inner::Stone(b).weigh())
        .wrapping_add((a, b).weigh())
        .wrapping_add(inner::apply(&c, b))
}

macro_rules! exports {
    ($add:ident, $unused:ident, $table:ident) => {
        #[unsafe(no_mangle)]
        #[inline(never)]
        pub extern "C" fn $add(a: u64, b: u64) -> u64 {
            body(a, b)
        }
        #[unsafe(no_mangle)]
        #[inline(never)]
        pub extern "C" fn $unused(a: u64) -> u64 {
            inner::scale(a).wrapping_add(7)
        }
        #[unsafe(no_mangle)]
        pub static $table: [u64; 4] = [1, 2, 3, 4];
    };
}
#[cfg(d)]
exports!(c17d_add, c17d_unused, C17D_TABLE);
#[cfg(p)]
exports!(c17p_add, c17p_unused, C17P_TABLE);
#[cfg(s)]
exports!(c17s_add, c17s_unused, C17S_TABLE);

#[unsafe(no_mangle)]
#[inline(never)]
pub extern "C" fn c17_shared(v: u64) -> u64 {
    v.wrapping_add(0x17)
}
