// deterministic debuggee: straight-line code, loops, recursion, calls; no input, time or randomness
#[inline(never)]
fn fact(n: u64) -> u64 {
    if n == 0 {
        return 1;
    }
    let r = fact(n - 1);
    n * r
}

#[inline(never)]
fn sum_to(n: u64) -> u64 {
    let mut acc = 0u64;
    let mut i = 0;
    while i < n {
        acc = acc.wrapping_add(step(i));
        i += 1;
    }
    acc
}

#[inline(never)]
fn step(i: u64) -> u64 {
    if i % 2 == 0 { i * 3 } else { i + 7 }
}

#[inline(never)]
fn shadow() -> u64 {
    let x = 1u64;
    let y = {
        let x = 2u64;
        let z = x + 10;
        z
    };
    x + y
}

#[inline(never)]
fn fib(n: u32) -> u64 {
    if n < 2 {
        n as u64
    } else {
        fib(n - 1) + fib(n - 2)
    }
}

fn main() {
    let a = fact(4);
    let b = shadow();
    let c = sum_to(6);
    let d = fib(5);
    let e = fact(2) + sum_to(3);
    println!("{} {} {} {} {}", a, b, c, d, e);
    std::process::exit(((a + b + c + d + e) % 200) as i32);
}
