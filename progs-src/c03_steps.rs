// C03 debuggee: control flow shapes for the step commands. Deterministic: no input, time, randomness or output.
// several calls on one line, nested calls, recursion (direct and mutual), early returns, loops with calls,
// generics (two instantiations), closures (called directly and through a generic), a trait object.

#[inline(never)]
fn add(a: u64, b: u64) -> u64 {
    a + b
}

#[inline(never)]
fn twice(x: u64) -> u64 {
    let y = add(x, x);
    y
}

#[inline(never)]
fn early(x: u64) -> u64 {
    if x > 10 {
        return x - 10;
    }
    if x % 2 == 0 {
        return twice(x);
    }
    add(x, 1)
}

#[inline(never)]
fn down(n: u64) -> u64 {
    if n == 0 {
        return 0;
    }
    let r = down(n - 1);
    r + n
}

#[inline(never)]
fn even(n: u64) -> bool {
    if n == 0 { true } else { odd(n - 1) }
}

#[inline(never)]
fn odd(n: u64) -> bool {
    if n == 0 { false } else { even(n - 1) }
}

#[inline(never)]
fn pick<T: Copy>(a: T, b: T, first: bool) -> T {
    let r = if first { a } else { b };
    r
}

#[inline(never)]
fn run<F: Fn(u64) -> u64>(f: F, n: u64) -> u64 {
    let mut acc = 0;
    let mut i = 0;
    while i < n {
        acc += f(i);
        i += 1;
    }
    acc
}

trait Op {
    fn go(&self, x: u64) -> u64;
}
struct Inc(u64);
struct Mul(u64);
impl Op for Inc {
    #[inline(never)]
    fn go(&self, x: u64) -> u64 {
        x + self.0
    }
}
impl Op for Mul {
    #[inline(never)]
    fn go(&self, x: u64) -> u64 {
        x * self.0
    }
}

#[inline(never)]
fn chain(ops: &[&dyn Op], x: u64) -> u64 {
    let mut v = x;
    for o in ops {
        v = o.go(v);
    }
    v
}

#[inline(never)]
fn tree(n: u64) -> u64 {
    if n < 2 {
        return n;
    }
    tree(n - 1) + tree(n - 2)
}

fn main() {
    let a = add(1, 2) + twice(3);
    let b = add(twice(2), early(4));
    let c = early(12) + early(3);
    let d = down(3);
    let e = if even(4) { 1 } else { 2 };
    let f = pick(5u64, 6u64, true) + pick(1u8, 2u8, false) as u64;
    let k = 3u64;
    let g = run(|v| v * k, 3);
    let sq = |v: u64| add(v, v);
    let h = sq(2) + run(sq, 2);
    let i = chain(&[&Inc(2), &Mul(3), &Inc(1)], 1);
    let j = tree(4);
    let total = a + b + c + d + e + f + g + h + i + j;
    std::process::exit((total % 100) as i32);
}
