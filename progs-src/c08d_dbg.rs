// C08D debuggee (DAP argument totality): deterministic, no input, no time, no randomness, terminates quickly.
// Lines carrying a `BP:<name>` marker are looked up by the harness (never hard-code line numbers).
// Locals with non-ASCII names exist on purpose (completions / evaluate with non-ASCII text);
// `knob` is written by setVariable / setExpression requests and never controls a loop.
#![allow(non_snake_case, uncommon_codepoints, mixed_script_confusables)]
#[inline(never)]
fn sink<T>(_t: &T) {}

#[inline(never)]
fn work(i: u64, knob: u64) -> u64 {
    let x = i * 3 + 1 + (knob & 1); // BP:work
    sink(&x);
    x
}

fn main() {
    let arr = [10u32, 20, 30, 40, 50];
    let día = 7u64;
    let accent_é = 1u8;
    let 変数 = 3i32;
    let knob = 0u64;
    let acc_total = 100u64;
    let mut acc = 0u64;
    sink(&arr); sink(&día); sink(&accent_é); sink(&変数); sink(&knob); sink(&acc_total); // BP:main
    for i in 0..3 {
        acc += work(i, knob);
    }
    println!("c08d acc={acc} {día} {accent_é} {変数} {acc_total}"); // BP:end
}
