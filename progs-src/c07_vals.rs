// C07 debuggee: fixed values, no input, no time, no randomness (hash maps use a fixed-key hasher).
// The harness (harness/src/props/c07.rs, `truth()`) encodes these values by hand: keep both in sync.
use std::cell::RefCell;
use std::collections::hash_map::DefaultHasher;
use std::collections::{BTreeMap, BTreeSet, HashMap, HashSet, VecDeque};
use std::hash::BuildHasherDefault;
use std::rc::Rc;
use std::sync::Arc;
type DH = BuildHasherDefault<DefaultHasher>;

#[allow(dead_code)]
#[derive(Hash, PartialEq, Eq, PartialOrd, Ord, Clone, Copy)]
enum Color { Red, Green, Blue }
#[derive(Hash, PartialEq, Eq, PartialOrd, Ord, Clone)]
struct Key { a: i32, b: bool }
struct Inner { x: i64, y: u8 }
struct Outer { id: u32, inner: Inner, arr: [i16; 3], name: &'static str, tup: (i32, bool), pin: *const Inner }
#[allow(dead_code)]
enum Shape { Circle(u32), Rect { w: u32, h: u32 }, Empty }

#[inline(never)]
fn sink<T>(_t: &T) {}

fn main() {
    let arr = [10i32, 20, 30, 40, 50];
    let arr2 = [[1u8, 2, 3], [4, 5, 6]];
    let vec1: Vec<u16> = vec![7, 8, 9, 10];
    let vecs: Vec<Vec<i32>> = vec![vec![1, 2], vec![3], vec![]];
    let mut deque: VecDeque<i64> = VecDeque::with_capacity(4);
    deque.push_back(1); deque.push_back(2); deque.push_back(3);
    deque.pop_front(); deque.pop_front();
    deque.push_back(4); deque.push_back(5); deque.push_back(6); // [3, 4, 5, 6], wrapped around
    let tup = (5i32, true, 'z');
    let inner0 = Inner { x: 64, y: 8 };
    let outer = Outer { id: 17, inner: Inner { x: -5, y: 250 }, arr: [-1, 0, 1], name: "outer", tup: (9, false), pin: &inner0 };
    let sref = &outer;
    let aref = &arr;
    let boxed = Box::new(Inner { x: -9, y: 200 });
    let rc = Rc::new(Inner { x: 77, y: 7 });
    let arc = Arc::new(123u64);
    let cell = RefCell::new(vec![1u8, 2]);
    let pint = &arr[1] as *const i32;
    let pp = &pint;
    let s = String::from("hello");
    let st = "world";
    let mut hm_i: HashMap<i32, &str, DH> = HashMap::default();
    hm_i.insert(1, "one"); hm_i.insert(2, "two"); hm_i.insert(-3, "minus");
    let mut hm_s: HashMap<String, i32, DH> = HashMap::default();
    hm_s.insert("alpha".to_string(), 1); hm_s.insert("beta".to_string(), 2); hm_s.insert("g g".to_string(), 3);
    let mut hm_t: HashMap<(i32, i32), u8, DH> = HashMap::default();
    hm_t.insert((1, 2), 12); hm_t.insert((3, 4), 34);
    let bm_i: BTreeMap<u8, [i32; 2]> = BTreeMap::from([(1, [1, 10]), (2, [2, 20]), (200, [3, 30])]);
    let bm_s: BTreeMap<&str, Inner> = BTreeMap::from([("a", Inner { x: 1, y: 1 }), ("b", Inner { x: 2, y: 2 })]);
    let bm_k: BTreeMap<Key, i32> = BTreeMap::from([(Key { a: 1, b: false }, 10), (Key { a: 1, b: true }, 11), (Key { a: 2, b: true }, 21)]);
    let bm_t: BTreeMap<(i32, i32), i32> = BTreeMap::from([((1, 2), 12), ((1, 3), 13), ((2, 3), 23)]);
    let bm_e: BTreeMap<Color, i32> = BTreeMap::from([(Color::Red, 0), (Color::Blue, 2)]);
    let bm_o: BTreeMap<Option<i32>, i32> = BTreeMap::from([(None, -1), (Some(1), 1), (Some(5), 5)]);
    let bm_b: BTreeMap<bool, i32> = BTreeMap::from([(false, 0), (true, 1)]);
    let bm_c: BTreeMap<char, i32> = BTreeMap::from([('a', 97), ('z', 122)]);
    let bm_w: BTreeMap<u128, i32> = BTreeMap::from([(7, 222), ((1u128 << 64) + 5, 111)]);
    let bm_u: BTreeMap<u64, i32> = BTreeMap::from([(3, 2), (u64::MAX, 1)]);
    let bm_v: BTreeMap<Vec<i32>, i32> = BTreeMap::from([(vec![1, 2], 12), (vec![1, 2, 3], 123)]);
    let set_a: BTreeSet<(i32, i32)> = BTreeSet::from([(1, 2), (1, 3)]);
    let set_b: BTreeSet<(i32, i32)> = BTreeSet::from([(4, 4)]);
    let bm_set: BTreeMap<BTreeSet<(i32, i32)>, i32> = BTreeMap::from([(set_a.clone(), 9), (set_b, 8)]);
    let mut hs_i: HashSet<i32, DH> = HashSet::default();
    hs_i.insert(5); hs_i.insert(-6); hs_i.insert(7);
    let bs_i: BTreeSet<i32> = BTreeSet::from([1, 2, 3]);
    let bs_s: BTreeSet<&str> = BTreeSet::from(["x", "yy"]);
    let shape1 = Shape::Circle(3);
    let shape2 = Shape::Rect { w: 2, h: 5 };
    let shape3 = Shape::Empty;
    let opt = Some(4i32);
    let none: Option<i32> = None;
    let color = Color::Green;
    let fl = 1.5f64;
    let flag = true;
    let ch = 'q';
    let unit = ();
    /* BREAK HERE (the harness finds this marker) */ sink(&arr); sink(&arr2); sink(&vec1); sink(&vecs); sink(&deque); sink(&tup); sink(&outer); sink(&sref); sink(&aref);
    sink(&boxed); sink(&rc); sink(&arc); sink(&cell); sink(&pint); sink(&pp); sink(&s); sink(&st); sink(&hm_i); sink(&hm_s); sink(&hm_t);
    sink(&bm_i); sink(&bm_s); sink(&bm_k); sink(&bm_t); sink(&bm_e); sink(&bm_o); sink(&bm_b); sink(&bm_c); sink(&bm_w); sink(&bm_u); sink(&bm_v);
    sink(&bm_set); sink(&set_a); sink(&hs_i); sink(&bs_i); sink(&bs_s); sink(&shape1); sink(&shape2); sink(&shape3); sink(&opt); sink(&none);
    sink(&color); sink(&fl); sink(&flag); sink(&ch); sink(&unit); sink(&inner0);
    println!("c07 {}", arr[0] as usize + vec1.len());
}
