// C13 debuggee: a loop (hit counts), a generic function with two instantiations, an always-inlined
// function, a function called several times. Deterministic: no input, no time, no randomness.
// Lines carrying a `BP:<name>` marker are the breakpoint candidates of the generator.
// `odd` and `big` are LOCALS of `work` and `ident` (the debugger's expressions read locals, not arguments), bound by
// one statement at the top of the function; their truth per activation is known from the source: the k-th call
// of `work` (k = 0..5) has odd = (k % 2 == 1), big = (k >= 3); `ident` called from `main` has (false, false).

// position discriminator: number of completed `tick` calls; read by the harness through /proc/<pid>/mem so that
// a stop in the k-th loop iteration is told apart from the same address in another iteration
static mut KTICK: u64 = 0;

#[inline(never)]
fn tick() {
    unsafe { KTICK = KTICK.wrapping_add(1) }
}

#[inline(never)]
fn ident<T: Copy>(x: T, odd_a: bool, big_a: bool) -> T {
    let (odd, big) = (odd_a, big_a);
    let y = x; // BP:gen_body
    if odd && big { // BP:gen_if
        return y; // BP:gen_early
    }
    y // BP:gen_ret
}

#[inline(always)]
fn twice(v: u64) -> u64 {
    let w = v.wrapping_mul(2); // BP:inl_body
    w.wrapping_add(1) // BP:inl_ret
}

#[inline(never)]
fn work(i: u64, odd_a: bool, big_a: bool) -> u64 {
    let (odd, big) = (odd_a, big_a);
    let a = twice(i); // BP:work_a
    let b = ident(a, odd, big); // BP:work_b
    let c = ident(b as u32, odd, big); // BP:work_c
    if odd { // BP:work_if
        a.wrapping_add(b).wrapping_add(c as u64) // BP:work_odd
    } else {
        1 // BP:work_even
    }
}

fn main() {
    let mut acc = 0u64;
    let mut i = 0u64;
    while i < 6 { // BP:loop_head
        tick();
        let r = work(i, i % 2 == 1, i >= 3); // BP:loop_call
        acc = acc.wrapping_add(r); // BP:loop_acc
        i += 1; // BP:loop_inc
    }
    let z = ident(acc, false, false); // BP:after
    println!("{}", z); // BP:done
}
