// C04 multi-unit debuggee, BINARY crate: uses the generic / #[inline] functions of c04_mulib.rs (so that file has
// line rows in the library's units AND in this crate's units) and is itself built with `-C codegen-units=16`:
// the inline modules below land in different codegen units = different DWARF compilation units of this ONE file.
// The one-line modules (`pub mod tail { .. }`) put a line of one unit between two lines of another unit.
// Built by tools/progs.d/c04.sh. Deterministic: no input, no time, no randomness.
extern crate c04_mulib;
use c04_mulib::deep::Shape;

mod alpha {
    pub fn pick<T: PartialOrd + Copy>(a: T, b: T) -> T {
        if a < b { b } else { a }
    }
    pub mod tail { #[inline(never)] pub fn t(x: u64) -> u64 { x ^ 5 } }
    #[inline(never)] pub fn run(c: &mut c04_mulib::Counter) -> u64 {
        let a = c04_mulib::bump(c);
        let b = c04_mulib::scale(7u32);
        let p = pick(a, b);
        c04_mulib::inl_add(p, tail::t(2))
    }
}
mod beta {
    #[inline(never)] pub fn run(c: &mut c04_mulib::Counter) -> u64 {
        let s = c04_mulib::scale(9u8);
        let t = c04_mulib::twice(s);
        let u = crate::alpha::pick(3u8, 4u8) as u64;
        let w = c04_mulib::Wrap { v: 5u8 };
        c04_mulib::settle(c, t + u) + w.map_with(|x| x + c04_mulib::inl_always(2))
    }
    pub mod mid { #[inline(never)] pub fn m(x: u64) -> u64 { x.wrapping_mul(3) } }
    pub fn cube<T: Copy + core::ops::Mul<Output = T>>(v: T) -> T {
        v * v * v
    }
}
mod gamma {
    pub struct Quad(pub u64);
    impl c04_mulib::deep::Shape for Quad {
        fn sides(&self) -> u64 {
            self.0
        }
    }
    pub mod head { #[inline(never)] pub fn h(x: u64) -> u64 { x | 16 } }
    #[inline(never)] pub fn run() -> u64 {
        let k = c04_mulib::clamp_to(200u8, 1, 100) as u64;
        let m = c04_mulib::clamp_to(5u64, 10, 20);
        let f = c04_mulib::deep::fold3(1u32, 2, 3, |x, y| x + y) as u64;
        k + m + f + crate::beta::cube(3u64) + crate::beta::cube(2u16) as u64 + head::h(crate::beta::mid::m(1))
    }
}

fn main() {
    let mut c = c04_mulib::Counter { n: 0 };
    let a = alpha::run(&mut c);
    let b = beta::run(&mut c);
    let g = gamma::run();
    let l = c04_mulib::local_use(7) + c04_mulib::deep::lib_fold();
    let w = c04_mulib::Wrap { v: 9u16 };
    let q = gamma::Quad(4).describe() + c04_mulib::deep::Tri.describe() + w.fixed() + w.get();
    println!("{a} {b} {g} {l} {q} {}", c04_mulib::bump(&mut c));
}
