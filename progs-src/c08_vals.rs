// C08 debuggee: fixed values, no input, no time, no randomness.
// The harness (harness/src/props/c08.rs) knows these constants: keep `VARS` there in sync.
#[inline(never)]
fn sink<T>(_t: &T) {}
fn main() {
    let arr = [10u32, 20, 30, 40, 50];
    let bytes = [1u8, 2, 3];
    let empty: [u64; 0] = [];
    let v: Vec<u16> = vec![7, 8, 9, 10];
    let ev: Vec<u32> = Vec::new();
    let parr = &arr[0] as *const u32;
    let unit = ();
    let punit = &unit;
    let units = [(), (), ()];
    /* BREAK HERE (line 16) */ sink(&arr); sink(&bytes); sink(&empty); sink(&v); sink(&ev); sink(&parr); sink(&punit); sink(&units);
    println!("c08 {}", arr[0] as usize + v.len()); 
}
