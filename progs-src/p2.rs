// deterministic debuggee: generics (two instantiations), closures, a trait object, nested loops
use std::fmt::Debug;

#[inline(never)]
fn ident<T: Debug + Clone>(x: T) -> T {
    let y = x.clone();
    y
}

#[inline(never)]
fn apply<F: Fn(u64) -> u64>(f: F, v: u64) -> u64 {
    let r = f(v);
    r + 1
}

trait Shape {
    fn area(&self) -> u64;
}
struct Sq(u64);
struct Rect(u64, u64);
impl Shape for Sq {
    #[inline(never)]
    fn area(&self) -> u64 {
        self.0 * self.0
    }
}
impl Shape for Rect {
    #[inline(never)]
    fn area(&self) -> u64 {
        self.0 * self.1
    }
}

#[inline(never)]
fn total(shapes: &[&dyn Shape]) -> u64 {
    let mut t = 0;
    for s in shapes {
        t += s.area();
    }
    t
}

#[inline(never)]
fn grid(n: u64) -> u64 {
    let mut c = 0;
    for i in 0..n {
        for j in 0..n {
            if (i + j) % 3 == 0 {
                c += i * j;
            }
        }
    }
    c
}

fn main() {
    let a = ident(7u64);
    let b = ident((1u8, 2u16)).1 as u64;
    let k = 5u64;
    let c = apply(|v| v * k, 4);
    let d = apply(|v| v + a, 1);
    let sq = Sq(3);
    let re = Rect(2, 5);
    let e = total(&[&sq, &re, &sq]);
    let f = grid(4);
    println!("{} {} {} {} {} {}", a, b, c, d, e, f);
}
