// C19 generated debuggee (tools/c19_gen.py 2); conventions: see progs-src/c19_scopes.rs
use std::hint::black_box;

#[inline(never)]
fn hold(v: u64) -> u64 {
    black_box(v)
}

#[inline(never)]
fn leaf(v: u64) -> u64 {
    let k: u64 = 220001;
    hold(v ^ k)
}

#[inline(never)]
fn f0(p: u64) -> u64 {
    let mut acc: u64 = 1;
    let c: u64 = hold(220002);
    if acc % 2 == 1 {
        {
            let y: u64 = hold(220003);
            let a: u64 = hold(220004);
            let c: u64 = hold(220005);
            let b: u64 = hold(220006);
            acc += leaf(y);
        }
        let y: u64 = hold(220007);
        acc += leaf(y);
        let d: u64 = hold(220008);
        let x: u64 = hold(220009);
        acc += leaf(c);
    } else {
        {
            {
                acc += leaf(c);
            }
            acc += leaf(c);
        }
        acc += leaf(c);
    }
    acc += leaf(c);
    acc + p
}

#[inline(never)]
fn f1(p: u64) -> u64 {
    let mut acc: u64 = 1;
    let x: u64 = hold(220011);
    if acc % 2 == 0 {
        {
            {
                acc += leaf(x);
                acc += leaf(x);
                acc += leaf(x);
            }
            let c: u64 = hold(220012);
            acc += leaf(x);
        }
        let a: u64 = hold(220013);
        let b: u64 = hold(220014);
        let x: u64 = hold(220015);
        let x: u64 = hold(220016);
        acc += leaf(x);
    } else {
        let y: u64 = hold(220017);
        let x: u64 = hold(220018);
        acc += leaf(y);
    }
    {
        if acc % 2 == 1 {
            let c: u64 = hold(220019);
            acc += leaf(x);
            acc += leaf(c);
        } else {
            acc += leaf(x);
        }
        acc += leaf(x);
    }
    acc += leaf(x);
    acc + p
}

#[inline(never)]
fn f2(p: u64) -> u64 {
    let mut acc: u64 = 1;
    let d: u64 = hold(220021);
    let c: u64 = hold(220022);
    let y: u64 = hold(220023);
    acc += leaf(y);
    acc + p
}

#[inline(never)]
fn f3(p: u64) -> u64 {
    let mut acc: u64 = 1;
    let y: u64 = hold(220025);
    if acc % 2 == 0 {
        let x: u64 = hold(220026);
        let d: u64 = hold(220027);
        let mut i1: u64 = 0;
        while i1 < 2 {
            {
                let d: u64 = hold(220028);
                acc += leaf(d + x);
                acc += leaf(x + y);
                acc += leaf(y);
            }
            let b: u64 = hold(220029);
            let b: u64 = hold(220030);
            {
                let c: u64 = hold(220031);
                let d: u64 = hold(220032);
                acc += leaf(y);
            }
            let x: u64 = hold(220033);
            acc += leaf(b);
            i1 += 1;
        }
        acc += leaf(d);
    } else {
        acc += leaf(y);
    }
    acc += leaf(y);
    acc + p
}

#[inline(never)]
fn rec0(n: u64, tag: u64) -> u64 {
    let own: u64 = 2200350 + n;
    if n == 0 {
        let base: u64 = hold(220036);
        return leaf(base + own);
    }
    let below: u64 = rec0(n - 1, tag + 1);
    {
        let own: u64 = 2200370 + n;
        hold(own + below + tag)
    }
}

fn main() {
    let m0: u64 = hold(220038);
    let r0: u64 = f0(220010);
    let r1: u64 = f1(220020);
    let r2: u64 = f2(220024);
    let r3: u64 = f3(220034);
    let rr: u64 = rec0(2, 40);
    let sum: u64 = m0 ^ rr ^ r0 ^ r1 ^ r2 ^ r3;
    println!("{}", sum);
    std::process::exit((sum % 100) as i32);
}
