/* C04 debuggee: a C object built with `gcc -g -O0` (no prologue_end rows). Deterministic. */
#include <stdio.h>

static int addone(int x)
{
    int y = x + 1;
    return y;
}

int twice(int x)
{
    int r = addone(x);
    r = r + addone(x);
    return r;
}

int main(void)
{
    int v = twice(20);
    printf("%d\n", v);
    return 0;
}
